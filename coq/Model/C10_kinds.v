(* Parameter kinds shared by the generated tables (Gen/C10_tables.v) and the C10/C11 models. *)
From Coq Require Import List Bool.
Import ListNotations.
Inductive kind := PO | PK | VP | KO | VK.
Definition kind_eqb a b := match a,b with PO,PO|PK,PK|VP,VP|KO,KO|VK,VK => true | _,_ => false end.
Definition kind_in (k : kind) (l : list kind) : bool := existsb (kind_eqb k) l.
