(* C10 model, part 5: the parameter rules written over the path conditions regenerated from diff.py (Gen/C10_guards.v):
   a breakage is yielded exactly when the tests on the path to its `yield` hold.  This is what the harness extracts and runs
   against the implementation; Proofs/C10_code.v proves it equal to fdiff_m, the definition the theorems are stated over.
   Executable definitions only. *)
From Coq Require Import List Arith Bool ZArith String.
From Verif Require Import Lib.Sexp Model.C10_kinds Gen.C10_tables Gen.C10_rules Gen.C10_guards Model.C10_diff Model.C10_defaults
  Model.C10_ext Model.C10_hist.
Import ListNotations.
Open Scope list_scope. Open Scope nat_scope.

Definition is_some {A} (o : option A) : bool := match o with Some _ => true | None => false end.

(* first loop: one old parameter against the new signature.  When the name is absent from new the tests that read the new
   parameter are never reached (every such path holds `present`); the old parameter stands in for it. *)
Definition rules_old (new : sig) (oi : nat) (op : param) : list brk :=
  let found := find (pname op) new in
  let np := match found with Some q => q | None => op end in
  let hva := has_kind VP new in let hvk := has_kind VK new in
  let R (f : kind -> kind -> bool -> bool -> bool -> bool -> bool -> bool -> bool -> bool) :=
    f (pkind op) (pkind np) (required op) (required np) (is_some found)
      (swallowed (pkind op) hva hvk) (incompatible_kind (pkind op) (pkind np) hva hvk)
      (Nat.eqb (index_of (pname op) new) oi) (negb (odef_eqb (pdef op) (pdef np))) in
  (if R rule_removed then [Removed (pname op)] else []) ++
  (if R rule_required then [ChReq (pname op)] else []) ++
  (if R rule_moved then [Moved (pname op)] else []) ++
  (if R rule_kind then [ChKind (pname op)] else []) ++
  (if R rule_default then [ChDef (pname op)] else []).
Fixpoint olds_code (new : sig) (i : nat) (old : sig) : list brk :=
  match old with [] => [] | p :: r => rules_old new i p ++ olds_code new (S i) r end.
(* second loop: one new parameter against the old signature *)
Definition added_code (old new : sig) : list brk :=
  flat_map (fun np => if rule_added (pkind np) (pkind np) false (required np) (is_some (find (pname np) old)) false false false false
                      then [AddedReq (pname np)] else []) new.
(* the old-side members of incompatible_kind are kept as a separate pass (same multiset as the code's single any()) *)
Definition fdiff_code (old new : sig) : list brk := olds_code new 0 old ++ added_code old new ++ collide collision_kind old new.

Definition run_C10 := Model.C10_hist.run_with fdiff_code.
