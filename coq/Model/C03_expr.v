(* C03 — Stored expressions render back to equivalent Python code.  Executable definitions only (no proofs).

   Part 1 (this file): source syntax [pyexpr] (one constructor per ast class of the expression grammar, plus three
   pseudo-nodes that stand for zipped fields), Griffe's expression tree [gexpr] (one constructor per Expr* dataclass),
   [build] (mirrors the _build_* functions of expressions.py including how each keyword flag is consumed / forwarded),
   [iterate] (mirrors Expr*.iterate(flat=...), _yield, _join) and [render] (Expr.__str__). *)
From Coq Require Import List ZArith String Ascii Bool Arith.
From Verif Require Import Lib.Sexp Model.C03_ops Gen.C03_tables.
Import ListNotations.
Open Scope string_scope. Open Scope list_scope. Open Scope nat_scope.

(* ---------- generic helpers ---------- *)
Section MapO.
  Context {A B : Type} (f : A -> option B).
  Fixpoint mapo (l : list A) : option (list B) :=
    match l with
    | [] => Some []
    | x :: r => match f x with
                | Some y => match mapo r with Some ys => Some (y :: ys) | None => None end
                | None => None
                end
    end.
End MapO.

Definition sconcat (l : list string) : string := fold_right String.append "" l.

Fixpoint sjoin (sep : string) (l : list string) : string :=
  match l with
  | [] => ""
  | [x] => x
  | x :: r => x ++ sep ++ sjoin sep r
  end.

Definition is_nil {A} (l : list A) : bool := match l with [] => true | _ => false end.

(* ---------- precedence levels (Python grammar, numbering of ast._Precedence) ---------- *)
Definition P_NONE := 0.
Definition P_YIELD := 3.
Definition P_TEST := 4.
Definition P_OR := 5.
Definition P_AND := 6.
Definition P_NOT := 7.
Definition P_CMP := 8.
Definition P_BOR := 9.
Definition P_FACTOR := 15.
Definition P_POWER := 16.
Definition P_AWAIT := 17.
Definition P_ATOM := 18.

(* str.isdecimal() on ASCII text *)
Definition is_digit (c : ascii) : bool := let n := nat_of_ascii c in (48 <=? n) && (n <=? 57).
Fixpoint all_digits (s : string) : bool :=
  match s with EmptyString => true | String c r => is_digit c && all_digits r end.
Definition is_decimal (s : string) : bool := match s with EmptyString => false | _ => all_digits s end.

Definition starts_brace (s : string) : bool :=
  match s with String c _ => Ascii.eqb c "{"%char | EmptyString => false end.

(* Python's repr of the text (forced to single quotes) without the quotes, braces doubled: what must be escaped between the
   single quotes of an f-string (ASCII; bytes >= 128 are kept) *)
Definition hex_digit (n : nat) : ascii :=
  nth n ["0"; "1"; "2"; "3"; "4"; "5"; "6"; "7"; "8"; "9"; "a"; "b"; "c"; "d"; "e"; "f"]%char "0"%char.
Definition fesc_char (c : ascii) : string :=
  let n := nat_of_ascii c in
  if n =? 92 then "\\" else if n =? 39 then "\'" else if n =? 10 then "\n" else if n =? 13 then "\r" else if n =? 9 then "\t"
  else if (n <? 32) || (n =? 127) then String "\"%char (String "x"%char (String (hex_digit (n / 16)) (String (hex_digit (n mod 16)) EmptyString)))
  else if n =? 123 then "{{" else if n =? 125 then "}}" else String c EmptyString.
Fixpoint fesc (s : string) : string :=
  match s with EmptyString => EmptyString | String c r => fesc_char c ++ fesc r end.

(* ---------- source syntax ---------- *)
Inductive pkind := PO | PK | VP | KO | VK.

Inductive pyexpr :=
| PName (id : string) (loc : bool)                (* loc: bound by the expression itself (comprehension target, lambda parameter) *)
| PNum (isint : bool) (repr : string)            (* int / float / complex constant, with CPython's repr *)
| PConst (repr : string)                         (* None, True, False, bytes (repr) and Ellipsis ("...") *)
| PStr (repr raw : string) (parsed : option pyexpr)  (* str constant: repr, value, and what CPython parses the value to (None: SyntaxError) *)
| PParsed (p : pyexpr)                           (* spec-side only: "this string annotation stands for the code p" *)
| PAttribute (v : pyexpr) (attr : string)
| PBinOp (l : pyexpr) (op : binop) (r : pyexpr)
| PBoolOp (op : boolop) (vs : list pyexpr)
| PUnaryOp (op : unop) (v : pyexpr)
| PCompare (l : pyexpr) (ops : list cmpop) (cs : list pyexpr)
| PCall (f : pyexpr) (args : list pyexpr) (kws : list pyexpr)
| PKeyword (name : option string) (v : pyexpr)
| PSubscript (v : pyexpr) (lit : bool) (sl : pyexpr)  (* lit: the value resolves to typing.Literal / typing_extensions.Literal *)
| PSlice (lo up st : option pyexpr)
| PTuple (es : list pyexpr)
| PList (es : list pyexpr)
| PSet (es : list pyexpr)
| PDict (items : list pyexpr)
| PDictItem (k : option pyexpr) (v : pyexpr)     (* pseudo-node: one zip(keys, values) pair; k = None is `**v` *)
| PIfExp (body test orelse : pyexpr)
| PLambda (po pk : list pyexpr) (vp : option string) (ko : list pyexpr) (vk : option string) (body : pyexpr)
| PParam (name : string) (default : option pyexpr)   (* pseudo-node: one lambda parameter with its aligned default *)
| PNamedExpr (t v : pyexpr)
| PStarred (v : pyexpr)
| PListComp (e : pyexpr) (gens : list pyexpr)
| PSetComp (e : pyexpr) (gens : list pyexpr)
| PGeneratorExp (e : pyexpr) (gens : list pyexpr)
| PDictComp (k v : pyexpr) (gens : list pyexpr)
| PComprehension (t it : pyexpr) (ifs : list pyexpr) (is_async : bool)
| PJoinedStr (vs : list pyexpr)
| PFormattedValue (v : pyexpr) (conv : Z) (spec : option pyexpr)
| PYield (v : option pyexpr)
| PYieldFrom (v : pyexpr)
| PAwait (v : pyexpr).

(* ---------- Griffe's expression tree ---------- *)
Inductive gparent := ParScope | ParName (path : string) | ParStr | ParNone.

Inductive gexpr :=
| GStr (s : string)                                  (* a plain str element *)
| GName (name : string) (par : gparent)
| GAttribute (vs : list gexpr)
| GBinOp (l : gexpr) (op : string) (r : gexpr)
| GBoolOp (op : string) (vs : list gexpr)
| GCall (f : gexpr) (args : list gexpr)
| GCompare (l : gexpr) (ops : list string) (cs : list gexpr)
| GComprehension (t it : gexpr) (conds : list gexpr) (is_async : bool)
| GDict (items : list (option gexpr * gexpr))
| GDictComp (k v : gexpr) (gens : list gexpr)
| GFormatted (v : gexpr) (conv : Z) (spec : option gexpr)
| GGeneratorExp (e : gexpr) (gens : list gexpr)
| GIfExp (b t o : gexpr)
| GJoinedStr (vs : list gexpr)
| GKeyword (name : string) (v : gexpr)
| GVarPositional (v : gexpr)
| GVarKeyword (v : gexpr)
| GLambda (params : list (string * pkind * option gexpr)) (body : gexpr)
| GList (es : list gexpr)
| GListComp (e : gexpr) (gens : list gexpr)
| GNamedExpr (t v : gexpr)
| GSet (es : list gexpr)
| GSetComp (e : gexpr) (gens : list gexpr)
| GSlice (lo up st : option gexpr)
| GSubscript (l s : gexpr)
| GTuple (es : list gexpr) (implicit : bool)
| GUnaryOp (op : string) (v : gexpr)
| GYield (v : option gexpr)
| GYieldFrom (v : gexpr).

(* ---------- build ---------- *)
(* parse_strings / literal_strings: literal_strings is only ever read when parse_strings is on *)
Inductive pmode := NoParse | Parse (lit : bool).
Record bctx := mkCtx { pm : pmode; insub : bool; injoin : bool; infmt : bool }.
Definition ctx0 : bctx := mkCtx NoParse false false false.

Definition mapped (k : nodekind) : bool := match node_builder k with Some _ => true | None => false end.

(* ExprName.path *)
Definition gname_path (g : gexpr) : string :=
  match g with
  | GName n (ParName p) => p ++ "." ++ n
  | GName n _ => n
  | _ => ""
  end.

Definition is_name_or_attr (g : gexpr) : bool :=
  match g with GName _ _ | GAttribute _ => true | _ => false end.

(* ---------- name resolution: what Module.resolve answers for the names a module header binds ---------- *)
Definition nenv := list (string * string).
Fixpoint assoc (k : string) (env : nenv) : option string :=
  match env with
  | [] => None
  | (k', v) :: r => if String.eqb k k' then Some v else assoc k r
  end.
(* a name the module does not bind resolves to itself (NameResolutionError is swallowed by ExprName.canonical_path) *)
Definition resolve (env : nenv) (n : string) : string := match assoc n env with Some p => p | None => n end.
Definition is_literal_path (p : string) : bool := String.eqb p "typing.Literal" || String.eqb p "typing_extensions.Literal".

(* ExprName.canonical_path, given the canonical path of the previous element of the chain *)
Definition gname_canon (env : nenv) (prev : string) (g : gexpr) : string :=
  match g with
  | GName n ParScope => resolve env n
  | GName n (ParName _) => prev ++ "." ++ n
  | GName n ParStr => "str." ++ n
  | GName n ParNone => n
  | _ => ""
  end.
(* canonical_path of an ExprName / ExprAttribute (the latter: of its last name); None for any other class *)
Definition gcanon (env : nenv) (g : gexpr) : option string :=
  match g with
  | GName _ _ => Some (gname_canon env "" g)
  | GAttribute vs => Some (fold_left (gname_canon env) vs "")
  | _ => None
  end.
(* a name, or a chain whose first element is a name *)
Definition pure_chain (g : gexpr) : bool :=
  match g with GName _ _ => true | GAttribute (GName _ _ :: _) => true | _ => false end.

(* _build_attribute, given the built left part *)
Definition attach_attr (lft : gexpr) (attr : string) : gexpr :=
  match lft with
  | GAttribute vs => GAttribute (vs ++ [GName attr (ParName (gname_path (last vs (GStr ""))))])
  | GName _ _ => GAttribute [lft; GName attr (ParName (gname_path lft))]
  | GStr _ => GAttribute [lft; GName attr ParStr]
  | _ => GAttribute [lft; GName attr ParNone]
  end.

(* _build: only a tuple, or a constant (a string annotation that may stand for one), keeps the in_subscript flag *)
Definition keeps_insub (e : pyexpr) : bool :=
  match e with PTuple _ | PNum _ _ | PConst _ | PStr _ _ _ | PParsed _ => true | _ => false end.
Definition enter (c : bctx) (e : pyexpr) : bctx :=
  if keeps_insub e then c else mkCtx (pm c) false (injoin c) (infmt c).

(* repr(value).replace("inf", "1e309") for float / complex constants (sys.float_info.max_10_exp + 1 = 309: IEEE double) *)
Fixpoint replace_inf (s : string) : string :=
  match s with
  | String "i" (String "n" (String "f" r)) => "1e309" ++ replace_inf r
  | String ch r => String ch (replace_inf r)
  | EmptyString => EmptyString
  end.
Definition num_text (isint : bool) (r : string) : string := if isint then r else replace_inf r.

Definition optb {A B} (f : A -> option B) (o : option A) : option (option B) :=
  match o with None => Some None | Some a => match f a with Some b => Some (Some b) | None => None end end.

Section WithFixes.
Variable fx : fixes.
Variable env : nenv.

(* _build_subscript: is the built left part typing.Literal / typing_extensions.Literal *)
Definition left_is_literal (lft : gexpr) : bool :=
  (match gcanon env lft with Some p => is_literal_path p | None => false end)
  && (if fx_litroot fx then pure_chain lft else true).

Fixpoint build (c0 : bctx) (e : pyexpr) {struct e} : option gexpr :=
  let c := enter c0 e in
  match e with
  | PName id loc => if mapped NName then Some (GName id (if loc then ParNone else ParScope)) else None
  | PNum isint r => if mapped NConstant then Some (GStr (num_text isint r)) else None
  | PConst r => if mapped NConstant then Some (GStr r) else None
  | PStr r raw parsed =>
      if mapped NConstant then
        if injoin c && negb (infmt c) then Some (GStr (if fx_fesc fx then fesc raw else raw))
        else match pm c, parsed with
             | Parse false, Some p => build (mkCtx NoParse (insub c) false false) p
             | _, _ => Some (GStr r)
             end
      else None
  | PParsed p => build (mkCtx NoParse (insub c) false false) p
  | PAttribute v attr =>
      if mapped NAttribute then
        match build c v with Some lft => Some (attach_attr lft attr) | None => None end
      else None
  | PBinOp l op r =>
      if mapped NBinOp then
        match build c l, binop_str op, build c r with
        | Some l', Some o, Some r' => Some (GBinOp l' o r')
        | _, _, _ => None
        end
      else None
  | PBoolOp op vs =>
      if mapped NBoolOp then
        match boolop_str op, mapo (build c) vs with
        | Some o, Some vs' => Some (GBoolOp o vs')
        | _, _ => None
        end
      else None
  | PUnaryOp op v =>
      if mapped NUnaryOp then
        match unop_str op, build c v with
        | Some o, Some v' => Some (GUnaryOp o v')
        | _, _ => None
        end
      else None
  | PCompare l ops cs =>
      if mapped NCompare then
        match build c l, mapo cmpop_str ops, mapo (build c) cs with
        | Some l', Some ops', Some cs' => Some (GCompare l' ops' cs')
        | _, _, _ => None
        end
      else None
  | PCall f args kws =>
      if mapped NCall then
        match build c f, mapo (build c) args, mapo (build c) kws with
        | Some f', Some a', Some k' => Some (GCall f' (a' ++ k'))
        | _, _, _ => None
        end
      else None
  | PKeyword name v =>
      if mapped NKeyword then
        match build c v with
        | Some v' => Some (match name with None => GVarKeyword v' | Some n => GKeyword n v' end)
        | None => None
        end
      else None
  | PSubscript v lit sl =>
      if mapped NSubscript then
        match build (mkCtx NoParse false (injoin c) (infmt c)) v with
        | Some lft =>
            let pm' := match pm c with
                       | NoParse => NoParse
                       | Parse l0 => Parse (l0 || left_is_literal lft)
                       end in
            match build (mkCtx pm' true (injoin c) (infmt c)) sl with
            | Some s' => Some (GSubscript lft s')
            | None => None
            end
        | None => None
        end
      else None
  | PSlice lo up st =>
      if mapped NSlice then
        match optb (build c) lo, optb (build c) up, optb (build c) st with
        | Some a, Some b, Some d => Some (GSlice a b d)
        | _, _, _ => None
        end
      else None
  | PTuple es =>
      if mapped NTuple then
        match mapo (build (mkCtx (pm c) false (injoin c) (infmt c))) es with
        | Some es' => Some (GTuple es' (insub c))
        | None => None
        end
      else None
  | PList es =>
      if mapped NList then match mapo (build c) es with Some es' => Some (GList es') | None => None end else None
  | PSet es =>
      if mapped NSet then match mapo (build c) es with Some es' => Some (GSet es') | None => None end else None
  | PDict items =>
      if mapped NDict then
        match mapo (fun it => match it with
                              | PDictItem None v => match build c v with Some v' => Some (None, v') | None => None end
                              | PDictItem (Some k) v =>
                                  match build c k, build c v with
                                  | Some k', Some v' => Some (Some k', v')
                                  | _, _ => None
                                  end
                              | _ => None
                              end) items with
        | Some its => Some (GDict its)
        | None => None
        end
      else None
  | PDictItem _ _ => None
  | PIfExp b t o =>
      if mapped NIfExp then
        match build c b, build c t, build c o with
        | Some b', Some t', Some o' => Some (GIfExp b' t' o')
        | _, _, _ => None
        end
      else None
  | PLambda po pk vp ko vk body =>
      if mapped NLambda then
        (* defaults are built with the lambda's own flags, parse_strings off: _build(default, parent, **default_kwargs) *)
        let par := fun (k : pkind) (p : pyexpr) =>
          match p with
          | PParam n d =>
              match d with
              | Some d' => match build (mkCtx NoParse false (injoin c) (infmt c)) d' with Some g => Some (n, k, Some g) | None => None end
              | None => Some (n, k, None)
              end
          | _ => None
          end in
        match mapo (par PO) po, mapo (par PK) pk, mapo (par KO) ko, build c body with
        | Some a, Some b, Some d, Some body' =>
            Some (GLambda (a ++ b ++ (match vp with Some n => [(n, VP, None)] | None => [] end)
                             ++ d ++ (match vk with Some n => [(n, VK, None)] | None => [] end)) body')
        | _, _, _, _ => None
        end
      else None
  | PParam _ _ => None
  | PNamedExpr t v =>
      if mapped NNamedExpr then
        match build c t, build c v with Some t', Some v' => Some (GNamedExpr t' v') | _, _ => None end
      else None
  | PStarred v =>
      if mapped NStarred then match build c v with Some v' => Some (GVarPositional v') | None => None end else None
  | PListComp e gens =>
      if mapped NListComp then
        match build c e, mapo (build c) gens with Some e', Some g' => Some (GListComp e' g') | _, _ => None end
      else None
  | PSetComp e gens =>
      if mapped NSetComp then
        match build c e, mapo (build c) gens with Some e', Some g' => Some (GSetComp e' g') | _, _ => None end
      else None
  | PGeneratorExp e gens =>
      if mapped NGeneratorExp then
        match build c e, mapo (build c) gens with Some e', Some g' => Some (GGeneratorExp e' g') | _, _ => None end
      else None
  | PDictComp k v gens =>
      if mapped NDictComp then
        match build c k, build c v, mapo (build c) gens with
        | Some k', Some v', Some g' => Some (GDictComp k' v' g')
        | _, _, _ => None
        end
      else None
  | PComprehension t it ifs a =>
      if mapped NComprehension then
        match build c t, build c it, mapo (build c) ifs with
        | Some t', Some it', Some ifs' => Some (GComprehension t' it' ifs' a)
        | _, _, _ => None
        end
      else None
  | PJoinedStr vs =>
      if mapped NJoinedStr then
        match mapo (build (mkCtx (pm c) (insub c) true (if fx_fnest fx then false else infmt c))) vs with
        | Some vs' => Some (GJoinedStr vs')
        | None => None
        end
      else None
  | PFormattedValue v conv spec =>
      if mapped NFormattedValue then
        match build (mkCtx (pm c) (insub c) (injoin c) true) v with
        | Some v' =>
            if fx_fconv fx then
              match optb (build (mkCtx (pm c) (insub c) (injoin c) false)) spec with
              | Some sp' => Some (GFormatted v' conv sp')
              | None => None
              end
            else Some (GFormatted v' (-1)%Z None)
        | None => None
        end
      else None
  | PYield v =>
      if mapped NYield then match optb (build c) v with Some v' => Some (GYield v') | None => None end else None
  | PYieldFrom v =>
      if mapped NYieldFrom then match build c v with Some v' => Some (GYieldFrom v') | None => None end else None
  | PAwait v =>
      if mapped NAwait then None (* not modelled: the table says there is no builder *) else None
  end.

(* ---------- iterate / render ---------- *)
Inductive item := IStr (s : string) | IExpr (g : gexpr).

Fixpoint ijoin (sep : list item) (l : list (list item)) : list item :=
  match l with
  | [] => []
  | [x] => x
  | x :: r => x ++ sep ++ ijoin sep r
  end.

(* zip_longest(operators, [], comparators, fillvalue=" ") flattened by _yield: op, " ", comparator *)
Fixpoint cmp_zip (ops : list string) (cs : list (list item)) : list (list item) :=
  match ops with
  | [] => map (fun c => [IStr " "; IStr " "] ++ c) cs
  | o :: ops' =>
      match cs with
      | [] => [IStr o; IStr " "; IStr " "] :: cmp_zip ops' []
      | c :: cs' => ([IStr o; IStr " "] ++ c) :: cmp_zip ops' cs'
      end
  end.

Definition is_variadic (k : pkind) : bool := match k with VP | VK => true | _ => false end.
Definition is_po (k : pkind) : bool := match k with PO => true | _ => false end.

(* ExprLambda.iterate before the repair: the loop over parameters, with its three flags; d = already-yielded default *)
Fixpoint lam_params (ps : list (string * pkind * option (list item))) (pos_only pos_or_kw kw_only : bool) : list item :=
  match ps with
  | [] => []
  | (name, kind, d) :: rest =>
      let '(pre, po1, pk1, ko1) :=
        match kind with
        | PO => ([], true, pos_or_kw, kw_only)
        | VP => ([IStr "*"], pos_only, pos_or_kw, kw_only)
        | VK => ([IStr "**"], pos_only, pos_or_kw, kw_only)
        | PK => ([], pos_only, true, kw_only)
        | KO => if kw_only then ([], pos_only, pos_or_kw, kw_only) else ([IStr "*, "], pos_only, pos_or_kw, true)
        end in
      let '(slash, po2) := if negb (is_po kind) && po1 then ([IStr "/, "], false) else ([], po1) in
      pre ++ slash ++ [IStr name]
          ++ (match d with Some dd => if is_variadic kind then [] else IStr "=" :: dd | None => [] end)
          ++ (if is_nil rest then [] else [IStr ", "])
          ++ lam_params rest po2 pk1 ko1
  end.

(* ExprLambda.iterate after the repair: `/, ` before the first parameter that is not positional-only, `*args` stands for
   the bare `*`, and a trailing `, /` when the positional-only parameters come last *)
Fixpoint lam_params2 (ps : list (string * pkind * option (list item))) (pos_only kw_only : bool) : list item :=
  match ps with
  | [] => if pos_only then [IStr ", /"] else []
  | (name, kind, d) :: rest =>
      let '(slash, po1) := if is_po kind then ([], true) else if pos_only then ([IStr "/, "], false) else ([], false) in
      let '(pre, ko1) :=
        match kind with
        | VP => ([IStr "*"], true)
        | VK => ([IStr "**"], kw_only)
        | KO => if kw_only then ([], kw_only) else ([IStr "*, "], true)
        | _ => ([], kw_only)
        end in
      slash ++ pre ++ [IStr name]
          ++ (match d with Some dd => if is_variadic kind then [] else IStr "=" :: dd | None => [] end)
          ++ (if is_nil rest then [] else [IStr ", "])
          ++ lam_params2 rest po1 ko1
  end.

(* _precedence(element): the level of the form an element is printed in.  Every number below is a constant regenerated
   from expressions.py (Gen/C03_tables.v: the table _binary_op_precedence and the branches of _precedence) *)
Fixpoint lookup_prec (op : string) (tbl : list (string * nat)) : option nat :=
  match tbl with
  | [] => None
  | (k, v) :: r => if String.eqb op k then Some v else lookup_prec op r
  end.
Definition gbinop_prec (op : string) : nat :=
  match lookup_prec op gen_binop_prec with Some n => n | None => pr_binop_default end.
Definition gprec (g : gexpr) : nat :=
  match g with
  | GBinOp _ op _ => gbinop_prec op
  | GBoolOp op _ => if String.eqb op pr_BoolOp_if_operator then pr_BoolOp_if else pr_BoolOp_else
  | GUnaryOp op _ => if String.eqb op pr_UnaryOp_if_operator then pr_UnaryOp_if else pr_UnaryOp_else
  | GCompare _ _ _ => pr_Compare
  | GIfExp _ _ _ => pr_IfExp
  | GLambda _ _ => pr_Lambda
  | GYield _ => pr_Yield
  | GYieldFrom _ => pr_YieldFrom
  | _ => pr_default
  end.
(* ExprBinOp.iterate: own level on the left, own level + 1 (capped) on the right; two fixed levels for the power operator *)
Definition gbin_lreq (op : string) : nat := if String.eqb op "**" then rq_BinOp_pow_left else gbinop_prec op.
Definition gbin_rreq (op : string) : nat := if String.eqb op "**" then rq_BinOp_pow_right else Nat.min (S (gbinop_prec op)) P_ATOM.

Definition wrap (b : bool) (l : list item) : list item := if b then IStr "(" :: l ++ [IStr ")"] else l.

Definition conv_text (z : Z) : string :=
  if (z =? -1)%Z then EmptyString else String "!"%char (String (ascii_of_nat (Z.to_nat z)) EmptyString).

Definition item_text (i : item) : string :=
  match i with
  | IStr s => s
  | IExpr (GName n _) => n
  | IExpr _ => ""       (* would be an AttributeError: never produced by flat iteration (Proofs: flat_items_are_names) *)
  end.
Definition render_items (l : list item) : string := sconcat (map item_text l).

Definition is_genexp (g : gexpr) : bool := match g with GGeneratorExp _ _ => true | _ => false end.

(* node shapes whose layout depends on the first / only child; y = _yield(_, flat, precedence) of the caller *)
Definition attr_parts_gen (intattr : bool) (y : nat -> gexpr -> list item) (vs : list gexpr) : list (list item) :=
  match vs with
  | GStr s :: rest => (if intattr && is_decimal s then [IStr "("; IStr s; IStr ")"] else [IStr s]) :: map (y rq_Attribute_values) rest
  | _ => map (y rq_Attribute_values) vs
  end.
Definition call_args_gen (genexp : bool) (y : nat -> gexpr -> list item) (args : list gexpr) : list item :=
  match args with
  | [GGeneratorExp _ _ as a] => if genexp then y rq_Call_sole_genexp a else [IStr "("] ++ y rq_Call_arguments a ++ [IStr ")"]
  | _ => [IStr "("] ++ ijoin [IStr ", "] (map (y rq_Call_arguments) args) ++ [IStr ")"]
  end.
Definition spec_items_gen (y : nat -> gexpr -> list item) (spec : option gexpr) : list item :=
  match spec with
  | Some (GJoinedStr vs) => IStr ":" :: ijoin [IStr ""] (map (y rq_Formatted_spec_values) vs)
  | Some o => IStr ":" :: y rq_Formatted_spec o
  | None => []
  end.

Fixpoint iterate (flat : bool) (g : gexpr) {struct g} : list item :=
  (* _yield(element, flat=flat, precedence=req) *)
  let y := fun (req : nat) (c : gexpr) =>
    match c with
    | GStr s => [IStr s]
    | _ => wrap (fx_prec fx && (gprec c <? req)) (if flat then iterate true c else [IExpr c])
    end in
  let yo := fun (req : nat) (o : option gexpr) => match o with Some c => y req c | None => [] end in
  match g with
  | GStr s => [IStr s]
  | GName _ _ => [IExpr g]
  | GAttribute vs =>
      ijoin [IStr "."] (attr_parts_gen (fx_intattr fx) y vs)
  | GBinOp l op r => y (gbin_lreq op) l ++ [IStr (" " ++ op ++ " ")] ++ y (gbin_rreq op) r
  | GBoolOp op vs => ijoin [IStr (" " ++ op ++ " ")] (map (y (rq_BoolOp_values_above_own + gprec g)) vs)
  | GCall f args =>
      y rq_Call_function f ++ call_args_gen (fx_genexp fx) y args
  | GCompare l ops cs => y rq_Compare_left l ++ [IStr " "] ++ ijoin [IStr " "] (cmp_zip ops (map (y rq_Compare_comparators) cs))
  | GComprehension t it conds a =>
      (if a then [IStr "async "] else []) ++ [IStr "for "] ++ y rq_Comprehension_target t ++ [IStr " in "] ++ y rq_Comprehension_iterable it
      ++ (if is_nil conds then [] else IStr " if " :: ijoin [IStr " if "] (map (y rq_Comprehension_conditions) conds))
  | GDict items =>
      [IStr "{"] ++ ijoin [IStr ", "]
        (map (fun kv => match fst kv with
                        | None => [IStr "**"] ++ y rq_Dict_unpacked (snd kv)
                        | Some k => y rq_Dict_key k ++ [IStr ": "] ++ y rq_Dict_value (snd kv)
                        end) items)
      ++ [IStr "}"]
  | GDictComp k v gens =>
      [IStr "{"] ++ y rq_DictComp_key k ++ [IStr ": "] ++ y rq_DictComp_value v ++ [IStr " "] ++ ijoin [IStr " "] (map (y rq_DictComp_generators) gens) ++ [IStr "}"]
  | GFormatted v conv spec =>
      [IStr "{"]
      ++ (if fx_fglue fx && (P_OR <=? gprec v) && starts_brace (render_items (match v with GStr s => [IStr s] | _ => iterate true v end))
          then [IStr " "] else [])
      ++ y rq_Formatted_value v
      ++ (if (conv =? -1)%Z then [] else [IStr (conv_text conv)])
      ++ spec_items_gen y spec
      ++ [IStr "}"]
  | GGeneratorExp e gens =>
      wrap (fx_genexp fx) (y rq_GeneratorExp_element e ++ [IStr " "] ++ ijoin [IStr " "] (map (y rq_GeneratorExp_generators) gens))
  | GIfExp b t o => y rq_IfExp_body b ++ [IStr " if "] ++ y rq_IfExp_test t ++ [IStr " else "] ++ y rq_IfExp_orelse o
  | GJoinedStr vs => [IStr "f'"] ++ ijoin [IStr ""] (map (y rq_JoinedStr_values) vs) ++ [IStr "'"]
  | GKeyword n v => [IStr n; IStr "="] ++ y rq_Keyword_value v
  | GVarPositional v => IStr "*" :: y rq_VarPositional_value v
  | GVarKeyword v => IStr "**" :: y rq_VarKeyword_value v
  | GLambda params body =>
      let ps := map (fun p => (fst (fst p), snd (fst p), match snd p with Some d => Some (y rq_Lambda_default d) | None => None end)) params in
      [IStr "lambda"] ++ (if is_nil params then [] else [IStr " "])
      ++ (if fx_lambda fx then lam_params2 ps false false else lam_params ps false false false)
      ++ [IStr ": "] ++ y rq_Lambda_body body
  | GList es => [IStr "["] ++ ijoin [IStr ", "] (map (y rq_List_elements) es) ++ [IStr "]"]
  | GListComp e gens => [IStr "["] ++ y rq_ListComp_element e ++ [IStr " "] ++ ijoin [IStr " "] (map (y rq_ListComp_generators) gens) ++ [IStr "]"]
  | GNamedExpr t v => [IStr "("] ++ y rq_NamedExpr_target t ++ [IStr " := "] ++ y rq_NamedExpr_value v ++ [IStr ")"]
  | GSet es => [IStr "{"] ++ ijoin [IStr ", "] (map (y rq_Set_elements) es) ++ [IStr "}"]
  | GSetComp e gens => [IStr "{"] ++ y rq_SetComp_element e ++ [IStr " "] ++ ijoin [IStr " "] (map (y rq_SetComp_generators) gens) ++ [IStr "}"]
  | GSlice lo up st =>
      yo rq_Slice_lower lo ++ [IStr ":"] ++ yo rq_Slice_upper up ++ (match st with Some s => IStr ":" :: y rq_Slice_step s | None => [] end)
  | GSubscript l s => y rq_Subscript_left l ++ [IStr "["] ++ y rq_Subscript_slice s ++ [IStr "]"]
  | GTuple es implicit =>
      let par := if fx_tuple0 fx then negb implicit || is_nil es else negb implicit in
      (if par then [IStr "("] else []) ++ ijoin [IStr ", "] (map (y rq_Tuple_elements) es)
      ++ (match es with [_] => [IStr ","] | _ => [] end) ++ (if par then [IStr ")"] else [])
  | GUnaryOp op v => IStr op :: y (rq_UnaryOp_value_above_own + gprec g) v
  | GYield v => IStr "yield" :: (match v with Some c => IStr " " :: y rq_Yield_value c | None => [] end)
  | GYieldFrom v => IStr "yield from " :: y rq_YieldFrom_value v
  end.

(* Expr.__str__: "".join(elem if isinstance(elem, str) else elem.name for elem in self.iterate(flat=True)) *)
Definition render (g : gexpr) : string := render_items (iterate true g).

(* what a renderer does with iter(expr): take one layer, keep strings and names, descend into every other sub-expression.
   n = fuel; out of fuel the sub-expression is left as it is (an item that is not a piece) *)
Fixpoint rwalk (n : nat) (g : gexpr) {struct n} : list item :=
  match n with
  | 0 => [IExpr g]
  | S n' =>
      flat_map (fun i => match i with
                         | IStr s => [IStr s]
                         | IExpr (GName _ _ as c) => [IExpr c]
                         | IExpr c => rwalk n' c
                         end) (iterate false g)
  end.

End WithFixes.

(* strings and names only: the walk above came to its end *)
Definition is_pieceb (i : item) : bool := match i with IStr _ => true | IExpr (GName _ _) => true | IExpr _ => false end.
