(* C03 — Stored expressions render back to equivalent Python code.  Executable definitions only (no proofs).

   Part 1 (this file): source syntax [pyexpr] (one constructor per ast class of the expression grammar, plus three
   pseudo-nodes that stand for zipped fields), Griffe's expression tree [gexpr] (one constructor per Expr* dataclass),
   [build] (mirrors the _build_* functions of expressions.py including how each keyword flag is consumed / forwarded),
   [iterate] (mirrors Expr*.iterate(flat=...), _yield, _join) and [render] (Expr.__str__). *)
From Coq Require Import List ZArith String Ascii Bool Arith.
From Verif Require Import Lib.Sexp Model.C03_ops Gen.C03_tables.
Import ListNotations.
Open Scope string_scope. Open Scope list_scope. Open Scope nat_scope.

(* ---------- generic helpers ---------- *)
Section MapO.
  Context {A B : Type} (f : A -> option B).
  Fixpoint mapo (l : list A) : option (list B) :=
    match l with
    | [] => Some []
    | x :: r => match f x with
                | Some y => match mapo r with Some ys => Some (y :: ys) | None => None end
                | None => None
                end
    end.
End MapO.

Definition sconcat (l : list string) : string := fold_right String.append "" l.

Fixpoint sjoin (sep : string) (l : list string) : string :=
  match l with
  | [] => ""
  | [x] => x
  | x :: r => x ++ sep ++ sjoin sep r
  end.

Definition is_nil {A} (l : list A) : bool := match l with [] => true | _ => false end.

(* ---------- source syntax ---------- *)
Inductive pkind := PO | PK | VP | KO | VK.

Inductive pyexpr :=
| PName (id : string)
| PNum (isint : bool) (repr : string)            (* int / float / complex constant, with CPython's repr *)
| PConst (repr : string)                         (* None, True, False, bytes (repr) and Ellipsis ("...") *)
| PStr (repr raw : string) (parsed : option pyexpr)  (* str constant: repr, value, and what CPython parses the value to (None: SyntaxError) *)
| PParsed (p : pyexpr)                           (* spec-side only: "this string annotation stands for the code p" *)
| PAttribute (v : pyexpr) (attr : string)
| PBinOp (l : pyexpr) (op : binop) (r : pyexpr)
| PBoolOp (op : boolop) (vs : list pyexpr)
| PUnaryOp (op : unop) (v : pyexpr)
| PCompare (l : pyexpr) (ops : list cmpop) (cs : list pyexpr)
| PCall (f : pyexpr) (args : list pyexpr) (kws : list pyexpr)
| PKeyword (name : option string) (v : pyexpr)
| PSubscript (v : pyexpr) (lit : bool) (sl : pyexpr)  (* lit: the value resolves to typing.Literal / typing_extensions.Literal *)
| PSlice (lo up st : option pyexpr)
| PTuple (es : list pyexpr)
| PList (es : list pyexpr)
| PSet (es : list pyexpr)
| PDict (items : list pyexpr)
| PDictItem (k : option pyexpr) (v : pyexpr)     (* pseudo-node: one zip(keys, values) pair; k = None is `**v` *)
| PIfExp (body test orelse : pyexpr)
| PLambda (po pk : list pyexpr) (vp : option string) (ko : list pyexpr) (vk : option string) (body : pyexpr)
| PParam (name : string) (default : option pyexpr)   (* pseudo-node: one lambda parameter with its aligned default *)
| PNamedExpr (t v : pyexpr)
| PStarred (v : pyexpr)
| PListComp (e : pyexpr) (gens : list pyexpr)
| PSetComp (e : pyexpr) (gens : list pyexpr)
| PGeneratorExp (e : pyexpr) (gens : list pyexpr)
| PDictComp (k v : pyexpr) (gens : list pyexpr)
| PComprehension (t it : pyexpr) (ifs : list pyexpr) (is_async : bool)
| PJoinedStr (vs : list pyexpr)
| PFormattedValue (v : pyexpr) (conv : Z) (spec : option pyexpr)
| PYield (v : option pyexpr)
| PYieldFrom (v : pyexpr)
| PAwait (v : pyexpr).

(* ---------- Griffe's expression tree ---------- *)
Inductive gparent := ParScope | ParName (path : string) | ParStr | ParNone.

Inductive gexpr :=
| GStr (s : string)                                  (* a plain str element *)
| GName (name : string) (par : gparent)
| GAttribute (vs : list gexpr)
| GBinOp (l : gexpr) (op : string) (r : gexpr)
| GBoolOp (op : string) (vs : list gexpr)
| GCall (f : gexpr) (args : list gexpr)
| GCompare (l : gexpr) (ops : list string) (cs : list gexpr)
| GComprehension (t it : gexpr) (conds : list gexpr) (is_async : bool)
| GDict (items : list (option gexpr * gexpr))
| GDictComp (k v : gexpr) (gens : list gexpr)
| GFormatted (v : gexpr)
| GGeneratorExp (e : gexpr) (gens : list gexpr)
| GIfExp (b t o : gexpr)
| GJoinedStr (vs : list gexpr)
| GKeyword (name : string) (v : gexpr)
| GVarPositional (v : gexpr)
| GVarKeyword (v : gexpr)
| GLambda (params : list (string * pkind * option gexpr)) (body : gexpr)
| GList (es : list gexpr)
| GListComp (e : gexpr) (gens : list gexpr)
| GNamedExpr (t v : gexpr)
| GSet (es : list gexpr)
| GSetComp (e : gexpr) (gens : list gexpr)
| GSlice (lo up st : option gexpr)
| GSubscript (l s : gexpr)
| GTuple (es : list gexpr) (implicit : bool)
| GUnaryOp (op : string) (v : gexpr)
| GYield (v : option gexpr)
| GYieldFrom (v : gexpr).

(* ---------- build ---------- *)
(* parse_strings / literal_strings: literal_strings is only ever read when parse_strings is on *)
Inductive pmode := NoParse | Parse (lit : bool).
Record bctx := mkCtx { pm : pmode; insub : bool; injoin : bool; infmt : bool }.
Definition ctx0 : bctx := mkCtx NoParse false false false.

Definition mapped (k : nodekind) : bool := match node_builder k with Some _ => true | None => false end.

(* ExprName.path *)
Definition gname_path (g : gexpr) : string :=
  match g with
  | GName n (ParName p) => p ++ "." ++ n
  | GName n _ => n
  | _ => ""
  end.

Definition is_name_or_attr (g : gexpr) : bool :=
  match g with GName _ _ | GAttribute _ => true | _ => false end.

(* _build_attribute, given the built left part *)
Definition attach_attr (lft : gexpr) (attr : string) : gexpr :=
  match lft with
  | GAttribute vs => GAttribute (vs ++ [GName attr (ParName (gname_path (last vs (GStr ""))))])
  | GName _ _ => GAttribute [lft; GName attr (ParName (gname_path lft))]
  | GStr _ => GAttribute [lft; GName attr ParStr]
  | _ => GAttribute [lft; GName attr ParNone]
  end.

(* _build: only a tuple, or a constant (a string annotation that may stand for one), keeps the in_subscript flag *)
Definition keeps_insub (e : pyexpr) : bool :=
  match e with PTuple _ | PNum _ _ | PConst _ | PStr _ _ _ | PParsed _ => true | _ => false end.
Definition enter (c : bctx) (e : pyexpr) : bctx :=
  if keeps_insub e then c else mkCtx (pm c) false (injoin c) (infmt c).

(* repr(value).replace("inf", "1e309") for float / complex constants (sys.float_info.max_10_exp + 1 = 309: IEEE double) *)
Fixpoint replace_inf (s : string) : string :=
  match s with
  | String "i" (String "n" (String "f" r)) => "1e309" ++ replace_inf r
  | String ch r => String ch (replace_inf r)
  | EmptyString => EmptyString
  end.
Definition num_text (isint : bool) (r : string) : string := if isint then r else replace_inf r.

Definition optb {A B} (f : A -> option B) (o : option A) : option (option B) :=
  match o with None => Some None | Some a => match f a with Some b => Some (Some b) | None => None end end.

Fixpoint build (c0 : bctx) (e : pyexpr) {struct e} : option gexpr :=
  let c := enter c0 e in
  match e with
  | PName id => if mapped NName then Some (GName id ParScope) else None
  | PNum isint r => if mapped NConstant then Some (GStr (num_text isint r)) else None
  | PConst r => if mapped NConstant then Some (GStr r) else None
  | PStr r raw parsed =>
      if mapped NConstant then
        if injoin c && negb (infmt c) then Some (GStr raw)
        else match pm c, parsed with
             | Parse false, Some p => build (mkCtx NoParse (insub c) false false) p
             | _, _ => Some (GStr r)
             end
      else None
  | PParsed p => build (mkCtx NoParse (insub c) false false) p
  | PAttribute v attr =>
      if mapped NAttribute then
        match build c v with Some lft => Some (attach_attr lft attr) | None => None end
      else None
  | PBinOp l op r =>
      if mapped NBinOp then
        match build c l, binop_str op, build c r with
        | Some l', Some o, Some r' => Some (GBinOp l' o r')
        | _, _, _ => None
        end
      else None
  | PBoolOp op vs =>
      if mapped NBoolOp then
        match boolop_str op, mapo (build c) vs with
        | Some o, Some vs' => Some (GBoolOp o vs')
        | _, _ => None
        end
      else None
  | PUnaryOp op v =>
      if mapped NUnaryOp then
        match unop_str op, build c v with
        | Some o, Some v' => Some (GUnaryOp o v')
        | _, _ => None
        end
      else None
  | PCompare l ops cs =>
      if mapped NCompare then
        match build c l, mapo cmpop_str ops, mapo (build c) cs with
        | Some l', Some ops', Some cs' => Some (GCompare l' ops' cs')
        | _, _, _ => None
        end
      else None
  | PCall f args kws =>
      if mapped NCall then
        match build c f, mapo (build c) args, mapo (build c) kws with
        | Some f', Some a', Some k' => Some (GCall f' (a' ++ k'))
        | _, _, _ => None
        end
      else None
  | PKeyword name v =>
      if mapped NKeyword then
        match build c v with
        | Some v' => Some (match name with None => GVarKeyword v' | Some n => GKeyword n v' end)
        | None => None
        end
      else None
  | PSubscript v lit sl =>
      if mapped NSubscript then
        match build (mkCtx NoParse false (injoin c) (infmt c)) v with
        | Some lft =>
            let pm' := match pm c with
                       | NoParse => NoParse
                       | Parse l0 => Parse (l0 || (lit && is_name_or_attr lft))
                       end in
            match build (mkCtx pm' true (injoin c) (infmt c)) sl with
            | Some s' => Some (GSubscript lft s')
            | None => None
            end
        | None => None
        end
      else None
  | PSlice lo up st =>
      if mapped NSlice then
        match optb (build c) lo, optb (build c) up, optb (build c) st with
        | Some a, Some b, Some d => Some (GSlice a b d)
        | _, _, _ => None
        end
      else None
  | PTuple es =>
      if mapped NTuple then
        match mapo (build (mkCtx (pm c) false (injoin c) (infmt c))) es with
        | Some es' => Some (GTuple es' (insub c))
        | None => None
        end
      else None
  | PList es =>
      if mapped NList then match mapo (build c) es with Some es' => Some (GList es') | None => None end else None
  | PSet es =>
      if mapped NSet then match mapo (build c) es with Some es' => Some (GSet es') | None => None end else None
  | PDict items =>
      if mapped NDict then
        match mapo (fun it => match it with
                              | PDictItem None v => match build c v with Some v' => Some (None, v') | None => None end
                              | PDictItem (Some k) v =>
                                  match build c k, build c v with
                                  | Some k', Some v' => Some (Some k', v')
                                  | _, _ => None
                                  end
                              | _ => None
                              end) items with
        | Some its => Some (GDict its)
        | None => None
        end
      else None
  | PDictItem _ _ => None
  | PIfExp b t o =>
      if mapped NIfExp then
        match build c b, build c t, build c o with
        | Some b', Some t', Some o' => Some (GIfExp b' t' o')
        | _, _, _ => None
        end
      else None
  | PLambda po pk vp ko vk body =>
      if mapped NLambda then
        (* defaults go through safe_get_expression(default, parse_strings=False): fresh flags, failure swallowed *)
        let par := fun (k : pkind) (p : pyexpr) =>
          match p with
          | PParam n d => Some (n, k, match d with Some d' => build ctx0 d' | None => None end)
          | _ => None
          end in
        match mapo (par PO) po, mapo (par PK) pk, mapo (par KO) ko, build c body with
        | Some a, Some b, Some d, Some body' =>
            Some (GLambda (a ++ b ++ (match vp with Some n => [(n, VP, None)] | None => [] end)
                             ++ d ++ (match vk with Some n => [(n, VK, None)] | None => [] end)) body')
        | _, _, _, _ => None
        end
      else None
  | PParam _ _ => None
  | PNamedExpr t v =>
      if mapped NNamedExpr then
        match build c t, build c v with Some t', Some v' => Some (GNamedExpr t' v') | _, _ => None end
      else None
  | PStarred v =>
      if mapped NStarred then match build c v with Some v' => Some (GVarPositional v') | None => None end else None
  | PListComp e gens =>
      if mapped NListComp then
        match build c e, mapo (build c) gens with Some e', Some g' => Some (GListComp e' g') | _, _ => None end
      else None
  | PSetComp e gens =>
      if mapped NSetComp then
        match build c e, mapo (build c) gens with Some e', Some g' => Some (GSetComp e' g') | _, _ => None end
      else None
  | PGeneratorExp e gens =>
      if mapped NGeneratorExp then
        match build c e, mapo (build c) gens with Some e', Some g' => Some (GGeneratorExp e' g') | _, _ => None end
      else None
  | PDictComp k v gens =>
      if mapped NDictComp then
        match build c k, build c v, mapo (build c) gens with
        | Some k', Some v', Some g' => Some (GDictComp k' v' g')
        | _, _, _ => None
        end
      else None
  | PComprehension t it ifs a =>
      if mapped NComprehension then
        match build c t, build c it, mapo (build c) ifs with
        | Some t', Some it', Some ifs' => Some (GComprehension t' it' ifs' a)
        | _, _, _ => None
        end
      else None
  | PJoinedStr vs =>
      if mapped NJoinedStr then
        match mapo (build (mkCtx (pm c) (insub c) true (infmt c))) vs with
        | Some vs' => Some (GJoinedStr vs')
        | None => None
        end
      else None
  | PFormattedValue v _ _ =>
      if mapped NFormattedValue then
        match build (mkCtx (pm c) (insub c) (injoin c) true) v with
        | Some v' => Some (GFormatted v')
        | None => None
        end
      else None
  | PYield v =>
      if mapped NYield then match optb (build c) v with Some v' => Some (GYield v') | None => None end else None
  | PYieldFrom v =>
      if mapped NYieldFrom then match build c v with Some v' => Some (GYieldFrom v') | None => None end else None
  | PAwait v =>
      if mapped NAwait then None (* not modelled: the table says there is no builder *) else None
  end.

(* ---------- iterate / render ---------- *)
Inductive item := IStr (s : string) | IExpr (g : gexpr).

Fixpoint ijoin (sep : list item) (l : list (list item)) : list item :=
  match l with
  | [] => []
  | [x] => x
  | x :: r => x ++ sep ++ ijoin sep r
  end.

(* zip_longest(operators, [], comparators, fillvalue=" ") flattened by _yield: op, " ", comparator *)
Fixpoint cmp_zip (ops : list string) (cs : list (list item)) : list (list item) :=
  match ops with
  | [] => map (fun c => [IStr " "; IStr " "] ++ c) cs
  | o :: ops' =>
      match cs with
      | [] => [IStr o; IStr " "; IStr " "] :: cmp_zip ops' []
      | c :: cs' => ([IStr o; IStr " "] ++ c) :: cmp_zip ops' cs'
      end
  end.

Definition is_variadic (k : pkind) : bool := match k with VP | VK => true | _ => false end.
Definition is_po (k : pkind) : bool := match k with PO => true | _ => false end.

(* ExprLambda.iterate: the loop over parameters, with its three flags; d = already-yielded default *)
Fixpoint lam_params (ps : list (string * pkind * option (list item))) (pos_only pos_or_kw kw_only : bool) : list item :=
  match ps with
  | [] => []
  | (name, kind, d) :: rest =>
      let '(pre, po1, pk1, ko1) :=
        match kind with
        | PO => ([], true, pos_or_kw, kw_only)
        | VP => ([IStr "*"], pos_only, pos_or_kw, kw_only)
        | VK => ([IStr "**"], pos_only, pos_or_kw, kw_only)
        | PK => ([], pos_only, true, kw_only)
        | KO => if kw_only then ([], pos_only, pos_or_kw, kw_only) else ([IStr "*, "], pos_only, pos_or_kw, true)
        end in
      let '(slash, po2) := if negb (is_po kind) && po1 then ([IStr "/, "], false) else ([], po1) in
      pre ++ slash ++ [IStr name]
          ++ (match d with Some dd => if is_variadic kind then [] else IStr "=" :: dd | None => [] end)
          ++ (if is_nil rest then [] else [IStr ", "])
          ++ lam_params rest po2 pk1 ko1
  end.

Fixpoint iterate (flat : bool) (g : gexpr) {struct g} : list item :=
  let y := fun (c : gexpr) =>
    match c with GStr s => [IStr s] | _ => if flat then iterate true c else [IExpr c] end in
  let yo := fun (o : option gexpr) => match o with Some c => y c | None => [] end in
  match g with
  | GStr s => [IStr s]
  | GName _ _ => [IExpr g]
  | GAttribute vs => ijoin [IStr "."] (map y vs)
  | GBinOp l op r => y l ++ [IStr (" " ++ op ++ " ")] ++ y r
  | GBoolOp op vs => ijoin [IStr (" " ++ op ++ " ")] (map y vs)
  | GCall f args => y f ++ [IStr "("] ++ ijoin [IStr ", "] (map y args) ++ [IStr ")"]
  | GCompare l ops cs => y l ++ [IStr " "] ++ ijoin [IStr " "] (cmp_zip ops (map y cs))
  | GComprehension t it conds a =>
      (if a then [IStr "async "] else []) ++ [IStr "for "] ++ y t ++ [IStr " in "] ++ y it
      ++ (if is_nil conds then [] else IStr " if " :: ijoin [IStr " if "] (map y conds))
  | GDict items =>
      [IStr "{"] ++ ijoin [IStr ", "]
        (map (fun kv => (match fst kv with None => [IStr "**"] | Some k => y k ++ [IStr ": "] end) ++ y (snd kv)) items)
      ++ [IStr "}"]
  | GDictComp k v gens => [IStr "{"] ++ y k ++ [IStr ": "] ++ y v ++ [IStr " "] ++ ijoin [IStr " "] (map y gens) ++ [IStr "}"]
  | GFormatted v => [IStr "{"] ++ y v ++ [IStr "}"]
  | GGeneratorExp e gens => y e ++ [IStr " "] ++ ijoin [IStr " "] (map y gens)
  | GIfExp b t o => y b ++ [IStr " if "] ++ y t ++ [IStr " else "] ++ y o
  | GJoinedStr vs => [IStr "f'"] ++ ijoin [IStr ""] (map y vs) ++ [IStr "'"]
  | GKeyword n v => [IStr n; IStr "="] ++ y v
  | GVarPositional v => IStr "*" :: y v
  | GVarKeyword v => IStr "**" :: y v
  | GLambda params body =>
      [IStr "lambda"] ++ (if is_nil params then [] else [IStr " "])
      ++ lam_params (map (fun p => (fst (fst p), snd (fst p), match snd p with Some d => Some (y d) | None => None end)) params)
                    false false false
      ++ [IStr ": "] ++ y body
  | GList es => [IStr "["] ++ ijoin [IStr ", "] (map y es) ++ [IStr "]"]
  | GListComp e gens => [IStr "["] ++ y e ++ [IStr " "] ++ ijoin [IStr " "] (map y gens) ++ [IStr "]"]
  | GNamedExpr t v => [IStr "("] ++ y t ++ [IStr " := "] ++ y v ++ [IStr ")"]
  | GSet es => [IStr "{"] ++ ijoin [IStr ", "] (map y es) ++ [IStr "}"]
  | GSetComp e gens => [IStr "{"] ++ y e ++ [IStr " "] ++ ijoin [IStr " "] (map y gens) ++ [IStr "}"]
  | GSlice lo up st =>
      yo lo ++ [IStr ":"] ++ yo up ++ (match st with Some s => IStr ":" :: y s | None => [] end)
  | GSubscript l s => y l ++ [IStr "["] ++ y s ++ [IStr "]"]
  | GTuple es implicit =>
      (if implicit then [] else [IStr "("]) ++ ijoin [IStr ", "] (map y es)
      ++ (match es with [_] => [IStr ","] | _ => [] end) ++ (if implicit then [] else [IStr ")"])
  | GUnaryOp op v => IStr op :: y v
  | GYield v => IStr "yield" :: (match v with Some c => IStr " " :: y c | None => [] end)
  | GYieldFrom v => IStr "yield from " :: y v
  end.

(* Expr.__str__: "".join(elem if isinstance(elem, str) else elem.name for elem in self.iterate(flat=True)) *)
Definition item_text (i : item) : string :=
  match i with
  | IStr s => s
  | IExpr (GName n _) => n
  | IExpr _ => ""       (* would be an AttributeError: never produced by flat iteration (Proofs: flat_items_are_names) *)
  end.

Definition render_items (l : list item) : string := sconcat (map item_text l).
Definition render (g : gexpr) : string := render_items (iterate true g).
