(* C07 model: c3linear.py:c3linear_merge, models.py:Class.resolved_bases/_mro/mro, Object.inherited_members,
   mixins.py:all_members -- and the authority: CPython's typeobject.c pmerge / mro_implementation and the
   attribute lookup through tp_mro.  Executable definitions only.

   Classes are natural numbers (indices into a table); member names and class paths are strings.
   Items handed to c3linear_merge are Class objects, which are always truthy (Object.__bool__), so the
   `if head and ...` test of c3linear_merge only filters the None head of an empty deque. *)
From Coq Require Import List ZArith String Bool Arith.
From Verif Require Import Lib.Sexp.
Import ListNotations.
Open Scope string_scope.
Open Scope list_scope.
Open Scope nat_scope.

Inductive err := Inconsistent | Cycle.
Inductive res (A : Type) := Ok (a : A) | Fail (e : err) | OutOfFuel.
Arguments Ok {A} a. Arguments Fail {A} e. Arguments OutOfFuel {A}.

Definition mem (x : nat) (l : list nat) : bool := existsb (Nat.eqb x) l.
Definition total (ls : list (list nat)) : nat := fold_right (fun l n => List.length l + n) 0 ls.

(* ------------------------------------------------------------------------------------------------
   Griffe: c3linear.py
   ------------------------------------------------------------------------------------------------ *)
(* _Dependency.head / .tail *)
Definition head (l : list nat) : option nat := match l with [] => None | x :: _ => Some x end.
Definition tail (l : list nat) : list nat := match l with [] => [] | _ :: t => t end.
(* _DependencyList.__contains__: any(item in lst.tail for lst in self._lists) *)
Definition in_tails (x : nat) (ls : list (list nat)) : bool := existsb (fun l => mem x (tail l)) ls.
(* _DependencyList.exhausted *)
Definition is_nil (l : list nat) : bool := match l with [] => true | _ => false end.
Definition exhausted (ls : list (list nat)) : bool := forallb is_nil ls.
(* _DependencyList.remove: for i in lists: if i and i.head == item: i.popleft() *)
Definition pop_if (x : nat) (l : list nat) : list nat :=
  match l with [] => [] | h :: t => if Nat.eqb h x then t else l end.
Definition remove (x : nat) (ls : list (list nat)) : list (list nat) := map (pop_if x) ls.
(* for head in linearizations.heads: if head and (head not in linearizations.tails): ... break *)
Fixpoint pick (heads : list (option nat)) (ls : list (list nat)) : option nat :=
  match heads with
  | [] => None
  | None :: r => pick r ls
  | Some h :: r => if in_tails h ls then pick r ls else Some h
  end.
(* the `while True` loop; result.append(head) is the cons after the recursive call *)
Fixpoint merge_fuel (fuel : nat) (ls : list (list nat)) : res (list nat) :=
  match fuel with
  | 0 => OutOfFuel
  | S f =>
      if exhausted ls then Ok []
      else match pick (map head ls) ls with
           | Some x => match merge_fuel f (remove x ls) with
                       | Ok r => Ok (x :: r)
                       | Fail e => Fail e
                       | OutOfFuel => OutOfFuel
                       end
           | None => Fail Inconsistent          (* for-else: raise ValueError *)
           end
  end.
Definition c3linear_merge (ls : list (list nat)) : res (list nat) := merge_fuel (S (total ls)) ls.

(* ------------------------------------------------------------------------------------------------
   CPython: Objects/typeobject.c  tail_contains / pmerge / check_duplicates / mro_implementation
   ------------------------------------------------------------------------------------------------ *)
(* to_merge[i] together with remain[i] *)
Definition pm_entry := (list nat * nat)%type.
Definition pm_cur (p : pm_entry) : option nat := nth_error (fst p) (snd p).
(* tail_contains(tuple, whence, o): for j = whence+1 .. size-1 *)
Definition tail_contains (p : pm_entry) (o : nat) : bool := mem o (skipn (S (snd p)) (fst p)).
(* if remain[j] < size && to_merge[j][remain[j]] == candidate: remain[j]++ *)
Definition pm_advance (o : nat) (p : pm_entry) : pm_entry :=
  match pm_cur p with
  | Some x => if Nat.eqb x o then (fst p, S (snd p)) else p
  | None => p
  end.
(* the for-i loop of one `again:` round: the first candidate that is in no tail *)
Fixpoint pm_scan (rest all : list pm_entry) : option nat :=
  match rest with
  | [] => None
  | p :: r => match pm_cur p with
              | None => pm_scan r all                                   (* empty_cnt++; continue *)
              | Some cand => if existsb (fun q => tail_contains q cand) all then pm_scan r all   (* goto skip *)
                             else Some cand
              end
  end.
Definition pm_all_empty (st : list pm_entry) : bool :=
  forallb (fun p => match pm_cur p with None => true | Some _ => false end) st.
Fixpoint pm_loop (fuel : nat) (st : list pm_entry) : res (list nat) :=
  match fuel with
  | 0 => OutOfFuel
  | S f =>
      match pm_scan st st with
      | Some cand => match pm_loop f (map (pm_advance cand) st) with       (* append; advance; goto again *)
                     | Ok r => Ok (cand :: r)
                     | Fail e => Fail e
                     | OutOfFuel => OutOfFuel
                     end
      | None => if pm_all_empty st then Ok [] else Fail Inconsistent     (* empty_cnt != to_merge_size: set_mro_error *)
      end
  end.
Definition cpython_pmerge (ls : list (list nat)) : res (list nat) :=
  pm_loop (S (total ls)) (map (fun l => (l, 0)) ls).

Fixpoint has_dup (l : list nat) : bool :=
  match l with [] => false | x :: r => mem x r || has_dup r end.

(* mro_implementation(type) given the already computed MROs of the bases.  `object` is elided everywhere:
   a class without bases has the MRO [itself]. *)
Definition cpython_mro_impl (c : nat) (bases : list nat) (base_mros : list (list nat)) : res (list nat) :=
  match bases, base_mros with
  | [_], [m] => Ok (c :: m)                                              (* n == 1 fast path *)
  | _, _ =>
      if has_dup bases then Fail Inconsistent                           (* check_duplicates: TypeError *)
      else match cpython_pmerge (base_mros ++ [bases]) with
           | Ok r => Ok (c :: r)
           | Fail e => Fail e
           | OutOfFuel => OutOfFuel
           end
  end.

(* ------------------------------------------------------------------------------------------------
   Class tables
   ------------------------------------------------------------------------------------------------ *)
Record cls := mkCls { cpath : string; cbases : list nat; cmembers : list string }.
Definition tbl := list cls.
Definition empty_cls : cls := mkCls "" [] [].
Definition nth_cls (t : tbl) (c : nat) : cls := nth c t empty_cls.

Fixpoint map_res {A B} (f : A -> res B) (l : list A) : res (list B) :=
  match l with
  | [] => Ok []
  | x :: r => match f x with
              | Ok y => match map_res f r with
                        | Ok ys => Ok (y :: ys)
                        | Fail e => Fail e
                        | OutOfFuel => OutOfFuel
                        end
              | Fail e => Fail e
              | OutOfFuel => OutOfFuel
              end
  end.

(* Class.resolved_bases + the `if base.is_class` filter of _mro: a base that is not a loaded class
   (index outside the table) is silently dropped *)
Definition resolved (t : tbl) (c : nat) : list nat :=
  filter (fun b => b <? List.length t) (cbases (nth_cls t c)).

(* Class._mro(seen) *)
Fixpoint g_mro (fuel : nat) (t : tbl) (seen : list nat) (c : nat) : res (list nat) :=
  match fuel with
  | 0 => OutOfFuel
  | S f =>
      let seen' := seen ++ [c] in
      let bases := resolved t c in
      match bases with
      | [] => Ok [c]
      | _ =>
          if existsb (fun b => mem b seen') bases then Fail Cycle
          else match map_res (g_mro f t seen') bases with
               | Ok ms => match c3linear_merge (ms ++ [bases]) with
                          | Ok r => Ok (c :: r)
                          | Fail e => Fail e
                          | OutOfFuel => OutOfFuel
                          end
               | Fail e => Fail e
               | OutOfFuel => OutOfFuel
               end
      end
  end.
Definition griffe_full_mro (t : tbl) (c : nat) : res (list nat) := g_mro (S (List.length t)) t [] c.
(* Class.mro(): self._mro()[1:] *)
Definition griffe_mro (t : tbl) (c : nat) : res (list nat) :=
  match griffe_full_mro t c with Ok m => Ok (tail m) | Fail e => Fail e | OutOfFuel => OutOfFuel end.

(* CPython: classes are created in program order; creating one needs every base to exist already *)
Fixpoint py_mro (fuel : nat) (t : tbl) (c : nat) : res (list nat) :=
  match fuel with
  | 0 => OutOfFuel
  | S f =>
      let bases := cbases (nth_cls t c) in
      match bases with
      | [] => Ok [c]
      | _ => match map_res (py_mro f t) bases with
             | Ok ms => cpython_mro_impl c bases ms
             | Fail e => Fail e
             | OutOfFuel => OutOfFuel
             end
      end
  end.
Definition cpython_mro (t : tbl) (c : nat) : res (list nat) := py_mro (S (List.length t)) t c.

(* The same with `object` spelled out, as CPython really does it: `o` (an index outside the table) is the only
   base of every class written without bases, and its own MRO is [o]. *)
Fixpoint py_mro_obj (fuel : nat) (t : tbl) (o : nat) (c : nat) : res (list nat) :=
  match fuel with
  | 0 => OutOfFuel
  | S f =>
      let bases := cbases (nth_cls t c) in
      match bases with
      | [] => cpython_mro_impl c [o] [[o]]
      | _ => match map_res (py_mro_obj f t o) bases with
             | Ok ms => cpython_mro_impl c bases ms
             | Fail e => Fail e
             | OutOfFuel => OutOfFuel
             end
      end
  end.
Definition cpython_mro_obj (t : tbl) (c : nat) : res (list nat) := py_mro_obj (S (List.length t)) t (List.length t) c.
Definition add_obj (o : nat) (r : res (list nat)) : res (list nat) :=
  match r with Ok m => Ok (m ++ [o]) | Fail e => Fail e | OutOfFuel => OutOfFuel end.

(* tables a Python program can express: every base was created before the class *)
Definition ordered (t : tbl) : Prop :=
  forall c b, c < List.length t -> In b (cbases (nth_cls t c)) -> b < c.
Definition orderedb (t : tbl) : bool :=
  forallb (fun c => forallb (fun b => b <? c) (cbases (nth_cls t c))) (seq 0 (List.length t)).

(* ------------------------------------------------------------------------------------------------
   Members
   ------------------------------------------------------------------------------------------------ *)
Definition smem (n : string) (l : list string) : bool := existsb (String.eqb n) l.
Fixpoint lookup {A} (n : string) (d : list (string * A)) : option A :=
  match d with [] => None | (k, v) :: r => if String.eqb k n then Some v else lookup n r end.
(* dict assignment: keeps the position of an existing key, appends a new one *)
Fixpoint assign {A} (n : string) (v : A) (d : list (string * A)) : list (string * A) :=
  match d with
  | [] => [(n, v)]
  | (k, w) :: r => if String.eqb k n then (k, v) :: r else (k, w) :: assign n v r
  end.

(* Alias(name, member, parent=self, inherited=True) where member = owner.members[name] *)
Record alias := mkAlias { al_name : string; al_parent : nat; al_owner : nat; al_inherited : bool }.
Definition alias_path (t : tbl) (a : alias) : string := cpath (nth_cls t (al_parent a)) ++ "." ++ al_name a.
Definition alias_target_path (t : tbl) (a : alias) : string := cpath (nth_cls t (al_owner a)) ++ "." ++ al_name a.

(* the body of the `for base in reversed(mro)` loop *)
Definition add_base (t : tbl) (c : nat) (d : list (string * alias)) (base : nat) : list (string * alias) :=
  fold_left (fun d n => if smem n (cmembers (nth_cls t c)) then d else assign n (mkAlias n c base true) d)
            (cmembers (nth_cls t base)) d.
(* Object.inherited_members for a Class *)
Definition inherited_members (t : tbl) (c : nat) : list (string * alias) :=
  match griffe_mro t c with
  | Ok m => fold_left (add_base t c) (rev m) []
  | _ => []                                          (* except ValueError: return {} *)
  end.

Inductive entry := Own (c : nat) (n : string) | Inh (a : alias).
(* all_members: {**self.inherited_members, **self.members} *)
Definition all_members (t : tbl) (c : nat) : list (string * entry) :=
  fold_left (fun d n => assign n (Own c n) d) (cmembers (nth_cls t c))
            (map (fun kv => (fst kv, Inh (snd kv))) (inherited_members t c)).

(* CPython: _PyType_Lookup / find_name_in_mro: the first class of tp_mro whose __dict__ has the name *)
Definition first_definer (t : tbl) (mro : list nat) (n : string) : option nat :=
  find (fun k => smem n (cmembers (nth_cls t k))) mro.
Definition cpython_getattr (t : tbl) (c : nat) (n : string) : option nat :=
  match cpython_mro t c with Ok m => first_definer t m n | _ => None end.

(* ------------------------------------------------------------------------------------------------
   s-expression interface
   ------------------------------------------------------------------------------------------------ *)
Definition dec_cls (s : sexp) : option cls :=
  match s with
  | SList [SStr p; bs; ms] => do bs' <- as_list_of as_nat bs; do ms' <- as_list_of as_str ms; Some (mkCls p bs' ms')
  | _ => None
  end.
Definition dec_tbl (s : sexp) : option tbl := as_list_of dec_cls s.

Definition enc_list (l : list nat) : sexp := SList (map of_nat l).
Definition enc_res (r : res (list nat)) : sexp :=
  match r with
  | Ok l => SList [SStr "ok"; enc_list l]
  | Fail Inconsistent => SList [SStr "err"; SStr "inconsistent"]
  | Fail Cycle => SList [SStr "err"; SStr "cycle"]
  | OutOfFuel => SList [SStr "fuel"]
  end.
Definition enc_alias (t : tbl) (a : alias) : sexp :=
  SList [SStr (al_name a); SStr (alias_path t a); SStr (alias_target_path t a); of_nat (al_owner a); of_bool (al_inherited a)].
Definition enc_entry (t : tbl) (kv : string * entry) : sexp :=
  match snd kv with
  | Own c n => SList [SStr (fst kv); SStr "own"; SStr (cpath (nth_cls t c) ++ "." ++ n)]
  | Inh a => SList [SStr (fst kv); SStr "inherited"; enc_alias t a]
  end.
Fixpoint dedup (l : list string) : list string :=
  match l with [] => [] | x :: r => if smem x r then dedup r else x :: dedup r end.
Definition all_names (t : tbl) : list string := dedup (flat_map cmembers t).

Definition run_C07 (s : sexp) : sexp :=
  match s with
  | SList [SStr "merge"; ls] =>
      match as_list_of (as_list_of as_nat) ls with
      | Some ls' => SList [enc_res (c3linear_merge ls'); enc_res (cpython_pmerge ls')]
      | None => bad_input
      end
  | SList [SStr "mro"; t; c] =>
      match dec_tbl t, as_nat c with
      | Some t', Some c' => SList [enc_res (griffe_mro t' c'); enc_res (cpython_mro t' c'); of_bool (orderedb t');
                                   enc_res (cpython_mro_obj t' c')]
      | _, _ => bad_input
      end
  | SList [SStr "class"; t; c] =>
      match dec_tbl t, as_nat c with
      | Some t', Some c' =>
          SList [enc_res (griffe_mro t' c'); enc_res (cpython_mro t' c'); of_bool (orderedb t');
                 SList (map (fun kv => SList [SStr (fst kv); enc_alias t' (snd kv)]) (inherited_members t' c'));
                 SList (map (enc_entry t') (all_members t' c'));
                 SList (map (fun n => SList [SStr n; of_opt of_nat (cpython_getattr t' c' n)]) (all_names t'));
                 enc_res (cpython_mro_obj t' c')]
      | _, _ => bad_input
      end
  | _ => bad_input
  end.
