(* C11 model, driven by the definitions regenerated from diff.py (Gen/C11_ladder.v): the traversal of
   find_breaking_changes written around dispatch_gen (the if/elif chain of _type_based_yield), seen_key_gen (what the
   seen_paths guard is keyed on), member_skipped_gen / removal_reported_gen (_member_incompatibilities), base_removed_gen /
   class_members_always_compared_gen (_class_incompatibilities), value_changed_gen, returns_compatible_gen.
   This is what the harness extracts and runs against the implementation; Proofs/C11_ladder.v shows that on the code as it
   is it computes exactly Model/C11_apidiff.v's fbc / breakages, about which the theorems are stated.
   Executable definitions only. *)
From Coq Require Import List Arith Bool ZArith String Ascii.
From Verif Require Import Lib.Sexp Model.C10_kinds Gen.C10_tables Model.C10_diff Model.C11_apidiff.
Import ListNotations.
Open Scope string_scope. Open Scope list_scope. Open Scope nat_scope.

Definition is_none {A} (o : option A) : bool := match o with None => true | Some _ => false end.

Definition seen_test (seen : list (nat * nat)) (i j : nat) : bool :=
  match seen_key_gen with
  | SeenPair => pmem i j seen
  | SeenOld => existsb (fun p => Nat.eqb (fst p) i) seen
  | SeenNew => existsb (fun p => Nat.eqb (snd p) j) seen
  end.

Definition action_of (oi nj : node) : action :=
  dispatch_gen (is_alias oi) (is_alias nj) (negb (okind_eqb (kind_of oi) (kind_of nj))) (kind_of oi).

Definition base_removed (oi nj : node) : bool :=
  match nbody oi, nbody nj with
  | BClass _ ob _ _, BClass _ nb _ _ => base_removed_gen (negb (natlist_eqb nb ob)) (Nat.ltb (List.length nb) (List.length ob))
  | _, _ => false end.

Section DiffG.
Variables go gn : store.

Definition local_head_g (oi nj : node) (j : nat) : list breakage :=
  match action_of oi nj with
  | AKindChanged => [BKind j]
  | AClass => if base_removed oi nj then [BBase j] else []
  | AFunction =>
      match nbody oi, nbody nj with
      | BFunction os oret, BFunction ns nret =>
          map (BParam j) (fdiff_m os ns) ++
          (if returns_compatible_gen (is_none oret) (is_none nret) (odef_eqb oret nret) then [] else [BReturn j])
      | _, _ => [] end
  | AAttribute =>
      match nbody oi, nbody nj with
      | BAttribute ov, BAttribute nv => if value_changed_gen (negb (odef_eqb ov nv)) then [BValue j] else []
      | _, _ => [] end
  | AAlias | AMembers | ANothing => []
  end.

Definition removed_member_g (oi nj : node) (nm : string * nat) : list breakage :=
  match get go (snd nm) with
  | Some mo =>
      if member_skipped_gen (is_alias mo) (is_module mo) (is_public oi mo) then []
      else match lookup (fst nm) (all_members nj) with
           | None => if removal_reported_gen (is_alias mo) (is_module mo) (is_public oi mo) then [BRemoved (snd nm)] else []
           | Some _ => [] end
  | None => [] end.
Definition local_members_g (oi nj : node) : list breakage := flat_map (removed_member_g oi nj) (all_members oi).
Definition local_g (e : ev) : list breakage :=
  match e with
  | EHead i j => match get go i, get gn j with Some oi, Some nj => local_head_g oi nj j | _, _ => [] end
  | EMembers i j => match get go i, get gn j with Some oi, Some nj => local_members_g oi nj | _, _ => [] end
  end.
Definition breakages_g (log : list ev) : list breakage := flat_map local_g log.

Section StepG.
Variable rec : list (nat * nat) -> nat -> nat -> res.

Fixpoint mloop_g (p : node) (nms ms : list (string * nat)) (seen : list (nat * nat)) : res :=
  match ms with
  | [] => Ok seen []
  | (n, m) :: r =>
    match get go m with
    | None => ErrBad
    | Some mo =>
      if member_skipped_gen (is_alias mo) (is_module mo) (is_public p mo) then mloop_g p nms r seen
      else match lookup n nms with
           | None => mloop_g p nms r seen
           | Some m' =>
             match rec seen m m' with
             | Ok s l => match mloop_g p nms r s with Ok s2 l2 => Ok s2 (l ++ l2) | e => e end
             | e => e
             end
           end
    end
  end.

Definition members_g (oi nj : node) (seen1 : list (nat * nat)) (i j : nat) : res :=
  match mloop_g oi (all_members nj) (all_members oi) seen1 with
  | Ok s l => Ok s (EHead i j :: EMembers i j :: l)
  | e => e end.

Definition step_g (seen : list (nat * nat)) (i j : nat) : res :=
  if seen_test seen i j then Ok seen []
  else match get go i, get gn j with
       | Some oi, Some nj =>
         let seen1 := (i, j) :: seen in
         match action_of oi nj with
         | AAlias =>
           match tgt_of oi i with
           | TUnres | TCyc => Ok seen1 [EHead i j]
           | TRes i' =>
             match tgt_of nj j with
             | TUnres | TCyc => Ok seen1 [EHead i j]
             | TRes j' => match rec seen1 i' j' with Ok s l => Ok s (EHead i j :: l) | e => e end
             end
           end
         | AMembers => members_g oi nj seen1 i j
         | AClass => if class_members_always_compared_gen || negb (base_removed oi nj) then members_g oi nj seen1 i j
                     else Ok seen1 [EHead i j]
         | AKindChanged | AFunction | AAttribute | ANothing => Ok seen1 [EHead i j]
         end
       | _, _ => ErrBad
       end.
End StepG.

Fixpoint tby_g (fuel : nat) : list (nat * nat) -> nat -> nat -> res :=
  match fuel with 0 => fun _ _ _ => OutOfFuel | S f => step_g (tby_g f) end.

Definition fbc_g (fuel ri rj : nat) : res :=
  match get go ri, get gn rj with
  | Some ro, Some rn =>
    match mloop_g (tby_g fuel) ro (all_members rn) (all_members ro) [] with
    | Ok s l => Ok s (EMembers ri rj :: l)
    | e => e end
  | _, _ => ErrBad
  end.
End DiffG.

Definition check_exit_g (go gn : store) (r : res) : nat :=
  match r with Ok _ log => match breakages_g go gn log with [] => 0 | _ => 1 end | _ => 1 end.
