(* C12: s-expression interface of the character-level model.
     ("rx" key line)                        -> ("none") | ("match" end ((group start end) ...))
     ("sub" key line)                       -> pattern.sub("", line)
     (style options parent parent-ann lines) -> ("ok"|"err" flags features sections details)
   A line is a string (ASCII only) or a list whose elements are code points below 128 or records
   (cp word space digit ci (lower ...)) filled in by the harness for the other characters. *)
From Coq Require Import List NArith ZArith String Ascii Bool Arith.
From Verif Require Import Lib.Sexp Model.C12_regex Gen.C12_regexes Gen.C12_tables Model.C12_docstrings Model.C12_chars Model.C12_history.
Import ListNotations.
Open Scope string_scope.
Open Scope list_scope.
Open Scope nat_scope.

Definition as_N (s : sexp) : option N :=
  match s with SInt z => if (z <? 0)%Z then None else Some (Z.to_N z) | _ => None end.

Definition dec_ch (s : sexp) : option ch :=
  match s with
  | SInt _ => do c <- as_N s; if N.ltb c 128 then Some (ascii_ch c) else None
  | SList [c; w; sp; d; ci; SList low] =>
      do c' <- as_N c; do w' <- as_bool w; do sp' <- as_bool sp; do d' <- as_bool d; do ci' <- as_N ci;
      do low' <- map_opt as_N low;
      let x := mkCh c' w' sp' d' ci' low' in
      if ch_wf x then Some x else None
  | _ => None
  end.
Definition dec_text (s : sexp) : option text :=
  match s with
  | SStr x => map_opt (fun a => let c := N_of_ascii a in if N.ltb c 128 then Some (ascii_ch c) else None)
                      (list_ascii_of_string x)
  | SList l => map_opt dec_ch l
  | _ => None
  end.

Definition enc_text (t : text) : sexp :=
  if forallb (fun x => N.ltb (cp x) 128) t
  then SStr (string_of_list_ascii (map (fun x => ascii_of_N (cp x)) t))
  else SList (map (fun x => SInt (Z.of_N (cp x))) t).
Definition enc_otext (o : option text) : sexp := of_opt enc_text o.

Fixpoint find_regex (key : string) (l : list (string * regex)) : option regex :=
  match l with
  | [] => None
  | (k, r) :: rest => if String.eqb k key then Some r else find_regex key rest
  end.

Definition enc_caps (c : caps) : sexp :=
  SList (flat_map (fun i => match cap_find i c with
                            | Some (a, b) => [SList [of_nat i; SInt (Z.of_N a); SInt (Z.of_N b)]]
                            | None => []
                            end) (seq 1 9)).

(* ---- features as numbers (the order of dec_lf) ---- *)
Definition enc_skind_n (k : skind) : nat :=
  match k with
  | KParams => 0 | KOther => 1 | KRaises => 2 | KWarns => 3 | KExamples => 4 | KAttrs => 5 | KFuncs => 6
  | KClasses => 7 | KModules => 8 | KReturns => 9 | KYields => 10 | KReceives => 11 | KDeprecated => 12
  end.
Definition enc_lf (l : lf) : sexp :=
  SList [of_bool (blank l); of_bool (null l); of_nat (ws l); of_nat (sp l); of_bool (fence l); of_bool (colon l);
         of_nat (match gadm l with ANone => 0 | AAdm => 1 | ASec k => 2 + enc_skind_n k end);
         of_bool (dash l); of_nat (match nkind l with None => 0 | Some k => S (enc_skind_n k) end);
         of_nat (npnames l); of_bool (colon0 l);
         of_nat (match sfield l with
                 | None => 0 | Some FPType => 1 | Some FParam => 2 | Some FAType => 3 | Some FAttr => 4
                 | Some FExc => 5 | Some FRet => 6 | Some FRType => 7 end);
         of_nat (ncol l); of_nat (s1 l); of_nat (s2 l)].

Definition enc_ditem (d : ditem) : sexp :=
  let '(name, ann, desc) := d in SList [enc_text name; enc_otext ann; enc_otext desc].
Definition enc_details (d : list (list ditem)) : sexp := SList (map (fun its => SList (map enc_ditem its)) d).

Definition enc_sann (a : sann) : sexp :=
  match a with SAStr t => SList [SStr "str"; enc_text t] | SAParent => SList [SStr "parent"] | SANone => SList [SStr "none"] end.
Definition enc_sval (v : sval) : sexp :=
  SList [SList (map (fun e => let '(n, a, d) := e in SList [enc_text n; enc_sann a; enc_text d]) (rev (sv_params v)));
         SList (map (fun e => let '(n, a, d) := e in SList [enc_text n; enc_sann a; enc_text d]) (rev (sv_attrs v)));
         of_opt (fun e => SList [enc_sann (fst e); enc_text (snd e)]) (sv_ret v);
         SList (map (fun e => SList [enc_text (fst e); enc_text (snd e)]) (rev (sv_excs v)))].

Definition dec_names (s : sexp) : option (list (list N)) :=
  as_list_of (fun x => match x with SStr n => Some (str_cps n) | _ => None end) s.
Definition dec_parent_ann (s : sexp) : option parent_ann :=
  match s with
  | SList [a; b; c] => do a' <- dec_names a; do b' <- dec_names b; do c' <- as_bool c; Some (mkParentAnn a' b' c')
  | _ => None
  end.

Definition enc_full (fs : list lf) (r : result (list section * list (list ditem))) (extra : sexp) : sexp :=
  let flags := SList [of_bool (cleandoc_post fs); of_bool (lines_wf fs)] in
  let feats := SList (map enc_lf fs) in
  match r with
  | Ok (secs, d) => SList [SStr "ok"; flags; feats; SList (map enc_section secs); enc_details d; extra]
  | Err e => SList [SStr "err"; flags; feats; enc_err e]
  end.

(* ---- histories on one docstring object ---- *)
Definition dec_style (s : sexp) : option pstyle :=
  match s with
  | SStr x => if String.eqb x "google" then Some PGoogle else if String.eqb x "numpy" then Some PNumpy
              else if String.eqb x "sphinx" then Some PSphinx else None
  | _ => None
  end.
Definition dec_op (s : sexp) : option op :=
  match s with
  | SList [SStr tag; a; b] =>
      if String.eqb tag "parse" then do a' <- as_opt dec_style a; do b' <- as_opt dec_gopts b; Some (OParse a' b') else None
  | SList [SStr tag; a] =>
      if String.eqb tag "setvalue" then do a' <- as_list_of dec_text a; Some (OSetValue a')
      else if String.eqb tag "setparser" then do a' <- as_opt dec_style a; Some (OSetParser a')
      else if String.eqb tag "setopts" then do a' <- dec_gopts a; Some (OSetOpts a')
      else None
  | SList [SStr tag] =>
      if String.eqb tag "parsed" then Some OReadParsed else if String.eqb tag "lines" then Some OReadLines else None
  | _ => None
  end.
Definition enc_pres (r : pres) : sexp :=
  match r with
  | PPlain cl => SList [SStr "plain"; SList (map enc_text cl)]
  | PGoogleR x => SList [SStr "google"; enc_full [] x (SList [])]
  | PNumpyR x => SList [SStr "numpy"; enc_full [] x (SList [])]
  | PSphinxR x v => SList [SStr "sphinx"; enc_full [] (match x with Ok secs => Ok (secs, []) | Err e => Err e end) (enc_sval v)]
  end.
Definition enc_obs (o : obs) : sexp :=
  match o with
  | ObsParse r => SList [SStr "parse"; enc_pres r]
  | ObsLines cl => SList [SStr "lines"; SList (map enc_text cl)]
  | ObsNone => SList [SStr "none"]
  end.

(* fail closed: with a regex outside the criterion the matcher is not run at all *)
Definition regexes_ok : bool := forallb (fun x => regex_ok (snd x)) all_regexes.

Definition run_inner (s : sexp) : sexp :=
  match s with
  | SList [SStr "rx"; SStr key; line] =>
      match find_regex key all_regexes, dec_text line with
      | Some x, Some t =>
          match rx_match x t with
          | None => SList [SStr "none"]
          | Some (e, c) => SList [SStr "match"; SInt (Z.of_N e); enc_caps c]
          end
      | _, _ => bad_input
      end
  | SList [SStr "sub"; SStr key; line] =>
      match find_regex key all_regexes, dec_text line with
      | Some x, Some t => enc_text (re_sub_del (rx_ic x) (rx_re x) t)
      | _, _ => bad_input
      end
  | SList [SStr "history"; p; pa; SList [ls; sty; o]; ops] =>
      match dec_parent p, dec_parent_ann pa, as_list_of dec_text ls, as_opt dec_style sty, dec_gopts o, as_list_of dec_op ops with
      | Some p', Some pa', Some cl, Some sty', Some o', Some ops' =>
          SList (map enc_obs (snd (exec p' pa' (mkD cl sty' o' None) ops')))
      | _, _, _, _, _, _ => bad_input
      end
  | SList [SStr style; o; p; pa; ls] =>
      match dec_gopts o, dec_parent p, dec_parent_ann pa, as_list_of dec_text ls with
      | Some o', Some p', Some pa', Some cl =>
          let fs := features cl in
          if String.eqb style "google" then enc_full fs (g_parse_full cl o' p') (SList [])
          else if String.eqb style "numpy" then enc_full fs (n_parse_full cl o' p') (SList [])
          else if String.eqb style "sphinx" then
            enc_full fs (match s_parse fs with Ok secs => Ok (secs, []) | Err e => Err e end)
                     (enc_sval (s_parse_full pa' cl))
          else bad_input
      | _, _, _, _ => bad_input
      end
  | _ => bad_input
  end.

Definition run_C12x (s : sexp) : sexp :=
  if regexes_ok then run_inner s else SList [SStr "regex-outside-criterion"].
