(* C18 model, part 6: what the extension can SEE when on_package_loaded fires - module scopes after the visit and after
   expand_wildcards (GriffeLoader._post_load), for the layouts the generator produces and any other built from the same
   statements.  Two questions per class: is its `@dataclass` decorator recognised (the name `dataclass` - and with it
   `field`, `KW_ONLY`, `InitVar`, `dataclasses`, all imported together at the top of a generated module - still bound to the
   direct import from `dataclasses`; finding C18-F10 is the case where a star import re-bound it), and do its base names
   resolve to the classes they mean.

   A module is a list of top-level statements in source order (the position is the line); names are numbers:
   0..4 = the helper names dataclass, field, KW_ONLY, InitVar, ClassVar (each may reach a module by its own route: bound
   directly to the stdlib module - `from dataclasses import X [as Y]`, `import dataclasses [as dc]` + `dc.X` are all one hop -,
   re-exported by a module of the package, or star-imported), 5 + k = class K<k>.  Executable definitions only. *)
From Coq Require Import List Arith Bool ZArith String.
From Verif Require Import Lib.Sexp Model.C18_dataclass.
Import ListNotations.
Open Scope list_scope. Open Scope nat_scope.

Inductive lstmt :=
| LStd (hs : list nat)       (* the helper names hs bound directly to dataclasses / typing (any one-hop spelling) *)
| LFromH (m : nat) (h : nat) (* from <module m> import <helper h>: a re-export *)
| LFrom (m : nat) (k : nat)  (* from <module m> import K<k> *)
| LStar (m : nat)            (* from <module m> import * *)
| LClass (k : nat)           (* class K<k>(...) *)
| LClassAs (k : nat) (n : nat). (* class object k defined under the NAME of class n: `class K<n>(...)` once more *)
Record lmod := mklmod { l_stmts : list lstmt; l_all : option (list nat) }.    (* __all__ = ["K<k>", ...] if any *)
Definition layout := list lmod.

Definition helper : nat := 0.            (* dataclass *)
Definition h_field : nat := 1.
Definition h_kwonly : nat := 2.
Definition h_initvar : nat := 3.
Definition h_classvar : nat := 4.
Definition cname (k : nat) : nat := 5 + k.

(* a member of a module: an object defined there, an alias to the dataclasses module (external, never loaded), or an
   alias to member n of module m *)
Inductive bind := BStd | BDef (k : nat) | BAlias (m : nat) (n : nat).
Record entry := mke { e_name : nat; e_bind : bind; e_line : nat }.
Definition scope := list entry.          (* members dict: insertion order, one entry per name *)

Fixpoint lookup_e (n : nat) (sc : scope) : option entry :=
  match sc with
  | [] => None
  | e :: r => if Nat.eqb (e_name e) n then Some e else lookup_e n r
  end.

(* the visitor: one member per bound name (a later statement replaces the value of an earlier one); star imports are
   kept aside with their line *)
Fixpoint visit_from (line : nat) (l : list lstmt) (sc : scope) (stars : list (nat * nat)) : scope * list (nat * nat) :=
  match l with
  | [] => (sc, stars)
  | LStd hs :: r => visit_from (S line) r (fold_left (fun acc h => upd e_name acc (mke h BStd line)) hs sc) stars
  | LFromH m h :: r => visit_from (S line) r (upd e_name sc (mke h (BAlias m h) line)) stars
  | LFrom m k :: r => visit_from (S line) r (upd e_name sc (mke (cname k) (BAlias m (cname k)) line)) stars
  | LClass k :: r => visit_from (S line) r (upd e_name sc (mke (cname k) (BDef k) line)) stars
  | LClassAs k n :: r => visit_from (S line) r (upd e_name sc (mke (cname n) (BDef k) line)) stars
  | LStar m :: r => visit_from (S line) r sc (stars ++ [(line, m)])
  end.
Definition visit (md : lmod) : scope * list (nat * nat) := visit_from 0 (l_stmts md) [] [].

(* is_wildcard_exposed: listed in __all__ if there is one, else every member (no generated name starts with `_`) *)
Definition exposed (md : lmod) (e : entry) : bool :=
  match l_all md with
  | Some ks => Nat.leb 5 (e_name e) && existsb (Nat.eqb (e_name e - 5)) ks
  | None => true
  end.

(* the last loop of expand_wildcards for one imported member: not if it is an alias back to this very name (self_alias);
   not over a member bound on a later line; else an alias to the member of the star-imported module *)
Definition star_add (self line m' : nat) (sc : scope) (e : entry) : scope :=
  match e_bind e with
  | BAlias m n => if Nat.eqb m self && Nat.eqb n (e_name e) then sc
                  else match lookup_e (e_name e) sc with
                       | Some old => if Nat.ltb (e_line old) line then upd e_name sc (mke (e_name e) (BAlias m' (e_name e)) line) else sc
                       | None => upd e_name sc (mke (e_name e) (BAlias m' (e_name e)) line)
                       end
  | _ => match lookup_e (e_name e) sc with
         | Some old => if Nat.ltb (e_line old) line then upd e_name sc (mke (e_name e) (BAlias m' (e_name e)) line) else sc
         | None => upd e_name sc (mke (e_name e) (BAlias m' (e_name e)) line)
         end
  end.

(* expand_wildcards on module m: each star-imported module is expanded first, then everything it exposes is collected.
   Explicit fuel for the recursion through star imports; with no fuel left the star import is not expanded (what the
   `seen` set makes of a cycle).  Acyclic star graphs need at most one unit per module. *)
Fixpoint expand (fuel : nat) (L : layout) (m : nat) : scope :=
  match nth_error L m with
  | None => []
  | Some md =>
      let (sc, stars) := visit md in
      match fuel with
      | 0 => sc
      | S f =>
          fold_left (fun acc (st : nat * nat) =>
                       let (line, m') := st in
                       match nth_error L m' with
                       | None => acc                       (* module not in the collection: the wildcard stays unexpanded *)
                       | Some md' => fold_left (star_add m line m') (filter (exposed md') (expand f L m')) acc
                       end) stars sc
      end
  end.

(* the scopes the event handlers see: `expanded` = expand_wildcards ran before the event (GriffeLoader._post_load) *)
Definition scope_at_event (expanded : bool) (L : layout) (m : nat) : scope :=
  if expanded then expand (List.length L) L m
  else match nth_error L m with Some md => fst (visit md) | None => [] end.

(* Expr.canonical_path of the decorator name: recognised iff still the direct import (an alias to an alias into the
   never-loaded `dataclasses` resolves to the path of its first hop, e.g. pkg.ma.dataclass) *)
Definition recognised_h (h : nat) (expanded : bool) (L : layout) (m : nat) : bool :=
  match lookup_e h (scope_at_event expanded L m) with
  | Some e => match e_bind e with BStd => true | _ => false end
  | None => false
  end.
Definition recognised := recognised_h helper.

(* modules_collection.get_member(canonical path of a base name).final_target: follow the aliases *)
Fixpoint resolve (fuel : nat) (expanded : bool) (L : layout) (m n : nat) : option nat :=
  match lookup_e n (scope_at_event expanded L m) with
  | Some e => match e_bind e with
              | BDef k => Some k
              | BAlias m' n' => match fuel with 0 => None | S f => resolve f expanded L m' n' end
              | BStd => None
              end
  | None => None
  end.
Definition base_resolves (expanded : bool) (L : layout) (m b : nat) : bool :=
  match resolve (S (S (List.length L))) expanded L m (cname b) with Some k => Nat.eqb k b | None => false end.

(* finding C18-F12, exactly: the base name n of class object k resolves - in the final namespace of the module, the only one
   Griffe has - to class k ITSELF (Class.mro() then raises: inheritance cycle) *)
Definition self_resolved (expanded : bool) (L : layout) (m k n : nat) : bool :=
  match resolve (S (S (List.length L))) expanded L m (cname n) with Some k' => Nat.eqb k' k | None => false end.

(* the table as the extension effectively reads it: `where_ i` = the module defining class i, `bases i` its base names *)
Definition seen_ok (expanded : bool) (L : layout) (m : nat) (c : cls) (bases : list nat) : bool :=
  (negb (decorated c) || recognised expanded L m) && forallb (base_resolves expanded L m) bases.
Definition mask_cls (expanded : bool) (L : layout) (m : nat) (c : cls) : cls :=
  if decorated c && negb (recognised expanded L m) then mkcls None (c_body c) (c_hw c) (c_mro c) else c.
