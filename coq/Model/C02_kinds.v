(* C02 base types shared by the generated tables (Gen/C02_tables.v) and the C02 models. *)
From Coq Require Import List String.
Import ListNotations.

(* enumerations.py ParameterKind *)
Inductive kind := PO | PK | VP | KO | VK.
Definition kind_eqb a b := match a, b with PO, PO | PK, PK | VP, VP | KO, KO | VK, VK => true | _, _ => false end.

(* a Python call that returns a value or raises the named exception *)
Inductive result (A : Type) := Ok (a : A) | Err (e : string).
Arguments Ok {A} a. Arguments Err {A} e.

(* the four blocks of get_parameters, named so that the generated table can state their order *)
Inductive group := GPositional | GVararg | GKwonly | GKwarg.

(* the tests of handle_function, named so that the generated table can state their order; what passes all of them
   is an implementation *)
Inductive branch := BProperty | BOverload | BAccessor.
(* enumerations.py Kind, as far as scopes go *)
Inductive skind := KModule | KClass | KFunction.
Definition skind_eqb a b := match a, b with KModule, KModule | KClass, KClass | KFunction, KFunction => true | _, _ => false end.
