(* C02 base types shared by the generated tables (Gen/C02_tables.v) and the C02 models. *)
From Coq Require Import List String.
Import ListNotations.

(* enumerations.py ParameterKind *)
Inductive kind := PO | PK | VP | KO | VK.
Definition kind_eqb a b := match a, b with PO, PO | PK, PK | VP, VP | KO, KO | VK, VK => true | _, _ => false end.

(* a Python call that returns a value or raises the named exception *)
Inductive result (A : Type) := Ok (a : A) | Err (e : string).
Arguments Ok {A} a. Arguments Err {A} e.

(* the four blocks of get_parameters, named so that the generated table can state their order *)
Inductive group := GPositional | GVararg | GKwonly | GKwarg.
