(* C02 model: (1) several parameter containers living side by side (one per function object), operations addressed
   to one of them; (2) merger._merge_function_stubs: the annotations of a stub signature are copied onto the
   parameters of the definition BY NAME.  Executable definitions only. *)
From Coq Require Import List ZArith String Bool Arith.
From Verif Require Import Lib.Sexp Model.C02_kinds Model.C02_params Model.C02_container.
Import ListNotations.
Open Scope string_scope.
Open Scope list_scope.
Open Scope nat_scope.

(* ---------- a store of containers ---------- *)
Definition store := list (list param).

Fixpoint upd_nth {A} (i : nat) (x : A) (l : list A) : list A :=
  match l, i with
  | [], _ => []
  | _ :: r, O => x :: r
  | y :: r, S i' => y :: upd_nth i' x r
  end.

Definition m_step (st : store) (io : nat * op) : store * obs :=
  match nth_error st (fst io) with
  | Some l => let lb := c_step l (snd io) in (upd_nth (fst io) (fst lb) st, snd lb)
  | None => (st, BUnit (Some "NoSuchContainer"))
  end.

Fixpoint run_multi (st : store) (ios : list (nat * op)) : list obs * store :=
  match ios with
  | [] => ([], st)
  | io :: r => let sb := m_step st io in let rest := run_multi (fst sb) r in (snd sb :: fst rest, snd rest)
  end.

Definition ops_for (j : nat) (ios : list (nat * op)) : list op := map snd (filter (fun io => Nat.eqb (fst io) j) ios).

(* ---------- stub merging ---------- *)
Definition with_ann (a : option Z) (p : param) : param := mkParam (pname p) a (pkind p) (pdef p).

(* function.parameters[name].annotation = a  (KeyError suppressed): the first parameter carrying that name *)
Fixpoint update_first (n : string) (a : option Z) (l : list param) : list param :=
  match l with
  | [] => []
  | p :: r => if name_is n p then with_ann a p :: r else p :: update_first n a r
  end.

Definition merge_stub_parameters (impl stub : list param) : list param :=
  fold_left (fun acc q => update_first (pname q) (pann q) acc) stub impl.

(* what the merged signature should be: CPython's runtime signature of the definition, each parameter annotated as
   the stub annotates the parameter OF THAT NAME (its own annotation when the stub does not mention it) *)
Definition merged_spec (impl stub : list param) : list param :=
  map (fun p => match find (name_is (pname p)) stub with Some q => with_ann (pann q) p | None => p end) impl.

(* ---------- s-expression interface ---------- *)
Definition dec_io (s : sexp) : option (nat * op) :=
  match s with SList [i; o] => do i' <- as_nat i; do o' <- dec_op o; Some (i', o') | _ => None end.

Definition run_multi_sexp (s : sexp) : sexp :=
  match s with
  | SList [SStr "multi"; st; ios] =>
      match as_list_of (as_list_of dec_param) st, as_list_of dec_io ios with
      | Some st', Some ios' =>
          let r := run_multi st' ios' in
          SList [SList (map enc_obs (fst r)); SList (map (fun l => SList (map enc_param l)) (snd r))]
      | _, _ => bad_input
      end
  | SList [SStr "merge"; impl; stub] =>
      match as_list_of dec_param impl, as_list_of dec_param stub with
      | Some i', Some s' => SList [SList (map enc_param (merge_stub_parameters i' s')); SList (map enc_param (merged_spec i' s'))]
      | _, _ => bad_input
      end
  | _ => bad_input
  end.
