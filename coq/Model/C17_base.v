(* C17 base vocabulary shared by the generated tables (Gen/C17_tables.v) and the C17 model:
   primitive runtime observations, boolean expressions over them, ObjectKind, inspector handlers. *)
From Coq Require Import List String Bool.
Import ListNotations.

(* What CPython introspection reports about one member object [obj] reached as getattr(parent, name)
   (after ObjectNode.__init__ unwrapped it), together with two facts about its parent. *)
Inductive prim :=
| PIsModule            (* inspect.ismodule(obj) *)
| PIsClass             (* inspect.isclass(obj) *)
| PParentIsClass       (* parent is not None and inspect.isclass(parent.obj) *)
| PDictStatic          (* parent has a __dict__ and isinstance(parent.__dict__.get(name), staticmethod) *)
| PDictClassm          (* same with classmethod *)
| PCached              (* the raw member was a functools.cached_property (obj is its .func) *)
| PIsFuncType          (* isinstance(obj, types.FunctionType) *)
| PIsBuiltin           (* inspect.isbuiltin(obj) *)
| PIsCoroutine         (* inspect.iscoroutinefunction(obj) *)
| PIsMethodDescriptor  (* inspect.ismethoddescriptor(obj) *)
| PIsFunction          (* inspect.isfunction(obj) *)
| PCallable            (* callable(obj) *)
| PIsGetSet            (* isinstance(obj, types.GetSetDescriptorType) *)
| PIsProperty.         (* isinstance(obj, property) *)

Definition all_prims : list prim :=
  [PIsModule; PIsClass; PParentIsClass; PDictStatic; PDictClassm; PCached; PIsFuncType; PIsBuiltin;
   PIsCoroutine; PIsMethodDescriptor; PIsFunction; PCallable; PIsGetSet; PIsProperty].

Definition prim_eqb (a b : prim) : bool :=
  match a, b with
  | PIsModule, PIsModule | PIsClass, PIsClass | PParentIsClass, PParentIsClass | PDictStatic, PDictStatic
  | PDictClassm, PDictClassm | PCached, PCached | PIsFuncType, PIsFuncType | PIsBuiltin, PIsBuiltin
  | PIsCoroutine, PIsCoroutine | PIsMethodDescriptor, PIsMethodDescriptor | PIsFunction, PIsFunction
  | PCallable, PCallable | PIsGetSet, PIsGetSet | PIsProperty, PIsProperty => true
  | _, _ => false
  end.

Inductive bexp :=
| BP (p : prim) | BAnd (a b : bexp) | BOr (a b : bexp) | BNot (a : bexp) | BTrue | BFalse.

Definition features := prim -> bool.

Fixpoint eval (f : features) (e : bexp) : bool :=
  match e with
  | BP p => f p
  | BAnd a b => eval f a && eval f b
  | BOr a b => eval f a || eval f b
  | BNot a => negb (eval f a)
  | BTrue => true
  | BFalse => false
  end.

(* _griffe.enumerations.ObjectKind *)
Inductive okind :=
| KModule | KClass | KStaticmethod | KClassmethod | KMethodDescriptor | KMethod | KBuiltinMethod | KCoroutine
| KFunction | KBuiltinFunction | KCachedProperty | KGetsetDescriptor | KProperty | KAttribute.

Definition okind_eqb (a b : okind) : bool :=
  match a, b with
  | KModule, KModule | KClass, KClass | KStaticmethod, KStaticmethod | KClassmethod, KClassmethod
  | KMethodDescriptor, KMethodDescriptor | KMethod, KMethod | KBuiltinMethod, KBuiltinMethod
  | KCoroutine, KCoroutine | KFunction, KFunction | KBuiltinFunction, KBuiltinFunction
  | KCachedProperty, KCachedProperty | KGetsetDescriptor, KGetsetDescriptor | KProperty, KProperty
  | KAttribute, KAttribute => true
  | _, _ => false
  end.

(* what Inspector.inspect_<kind> does *)
Inductive handler :=
| HModule | HClass
| HFunc (labels : list string)      (* self.handle_function(node, labels) *)
| HAttr.                            (* self.handle_attribute(node) *)

(* first matching rung of the `kind` property *)
Fixpoint run_ladder (f : features) (l : list (bexp * okind)) (dflt : okind) : okind :=
  match l with
  | [] => dflt
  | (e, k) :: r => if eval f e then k else run_ladder f r dflt
  end.

Fixpoint lookup_handler (k : okind) (l : list (okind * handler)) : option handler :=
  match l with
  | [] => None
  | (k', h) :: r => if okind_eqb k k' then Some h else lookup_handler k r
  end.

(* what the cached value of ObjectNode.children is: a list (every reader sees all of it), or a one-shot iterator *)
Inductive citer := CList | CGenerator.
