(* C03: the operator and node-type vocabularies of Python 3.12's expression grammar (spec side; fixed by the
   language), shared by the generated tables (Gen/C03_tables.v, regenerated from expressions.py) and the model. *)
From Coq Require Import List Bool String.
Import ListNotations.

Inductive unop := U_Invert | U_Not | U_UAdd | U_USub.
Inductive binop := B_Add | B_Sub | B_Mult | B_MatMult | B_Div | B_Mod | B_Pow | B_LShift | B_RShift
                 | B_BitOr | B_BitXor | B_BitAnd | B_FloorDiv.
Inductive boolop := L_And | L_Or.
Inductive cmpop := C_Eq | C_NotEq | C_Lt | C_LtE | C_Gt | C_GtE | C_Is | C_IsNot | C_In | C_NotIn.

(* every ast class an expression tree can contain in 3.12 (ast.expr subclasses + comprehension + keyword) *)
Inductive nodekind :=
| NAttribute | NAwait | NBinOp | NBoolOp | NCall | NCompare | NComprehension | NConstant | NDict | NDictComp
| NFormattedValue | NGeneratorExp | NIfExp | NJoinedStr | NKeyword | NLambda | NList | NListComp | NName
| NNamedExpr | NSet | NSetComp | NSlice | NStarred | NSubscript | NTuple | NUnaryOp | NYield | NYieldFrom.

Definition all_unops := [U_Invert; U_Not; U_UAdd; U_USub].
Definition all_binops := [B_Add; B_Sub; B_Mult; B_MatMult; B_Div; B_Mod; B_Pow; B_LShift; B_RShift;
                          B_BitOr; B_BitXor; B_BitAnd; B_FloorDiv].
Definition all_boolops := [L_And; L_Or].
Definition all_cmpops := [C_Eq; C_NotEq; C_Lt; C_LtE; C_Gt; C_GtE; C_Is; C_IsNot; C_In; C_NotIn].
