(* C03: the operator and node-type vocabularies of Python 3.12's expression grammar (spec side; fixed by the
   language), shared by the generated tables (Gen/C03_tables.v, regenerated from expressions.py) and the model. *)
From Coq Require Import List Bool String.
Import ListNotations.

Inductive unop := U_Invert | U_Not | U_UAdd | U_USub.
Inductive binop := B_Add | B_Sub | B_Mult | B_MatMult | B_Div | B_Mod | B_Pow | B_LShift | B_RShift
                 | B_BitOr | B_BitXor | B_BitAnd | B_FloorDiv.
Inductive boolop := L_And | L_Or.
Inductive cmpop := C_Eq | C_NotEq | C_Lt | C_LtE | C_Gt | C_GtE | C_Is | C_IsNot | C_In | C_NotIn.

(* every ast class an expression tree can contain in 3.12 (ast.expr subclasses + comprehension + keyword) *)
Inductive nodekind :=
| NAttribute | NAwait | NBinOp | NBoolOp | NCall | NCompare | NComprehension | NConstant | NDict | NDictComp
| NFormattedValue | NGeneratorExp | NIfExp | NJoinedStr | NKeyword | NLambda | NList | NListComp | NName
| NNamedExpr | NSet | NSetComp | NSlice | NStarred | NSubscript | NTuple | NUnaryOp | NYield | NYieldFrom.

Definition all_unops := [U_Invert; U_Not; U_UAdd; U_USub].
Definition all_binops := [B_Add; B_Sub; B_Mult; B_MatMult; B_Div; B_Mod; B_Pow; B_LShift; B_RShift;
                          B_BitOr; B_BitXor; B_BitAnd; B_FloorDiv].
Definition all_boolops := [L_And; L_Or].
Definition all_cmpops := [C_Eq; C_NotEq; C_Lt; C_LtE; C_Gt; C_GtE; C_Is; C_IsNot; C_In; C_NotIn].

(* Which of the rendering repairs the tree under test contains (regenerated from expressions.py by the translator:
   Gen/C03_tables.v [tree_fixes]).  The model, the gap classifier and every theorem are stated for all values of the flags;
   [fx_none] is the printer before any repair, [fx_all] the printer with all of them.
     fx_prec    operands are parenthesised by precedence (_Precedence / _precedence / _yield(precedence=...))
     fx_lambda  ExprLambda.iterate writes `/` and `*` markers from the repaired loop
     fx_tuple0  the empty tuple keeps its parentheses as a subscript
     fx_intattr an integer literal is parenthesised as the value of an attribute access
     fx_genexp  generator expressions write their own parentheses (a sole call argument stands for the call's)
     fx_fconv   ExprFormatted stores and prints conversion and format spec
     fx_fesc    literal text of an f-string is escaped
     fx_fglue   a replacement field whose value starts with `{` gets a space after its brace
     fx_fnest   _build_joinedstr resets in_formatted_str
     fx_litroot _build_subscript tests for typing.Literal only on chains of names *)
Record fixes := mkFx { fx_prec : bool; fx_lambda : bool; fx_tuple0 : bool; fx_intattr : bool; fx_genexp : bool;
                       fx_fconv : bool; fx_fesc : bool; fx_fglue : bool; fx_fnest : bool; fx_litroot : bool }.
Definition fx_none : fixes := mkFx false false false false false false false false false false.
Definition fx_all : fixes := mkFx true true true true true true true true true true.
