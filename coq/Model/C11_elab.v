(* C11 model, second layer: what find_breaking_changes reads *through* the loaded tree, computed inside Coq instead of
   being read from Griffe.

   A raw store is the declared structure of the loaded packages: modules (exports, imports, declared members), classes
   (imports, base expressions as compared by the diff, the canonical path of each base expression, declared members),
   functions, attributes, and aliases carrying only their target *path*; plus the modules collection (top-level name ->
   node).  [elab] turns it into the store of Model/C11_apidiff.v by computing

   - Alias.target / resolve_target / _resolve_target (models.py): ModulesCollection.get_member along the target path,
     `resolved is self` and the _passed_through flag (CyclicAliasError), KeyError (AliasResolutionError), the
     all-or-nothing rule for chains (a link that cannot be followed down to an object leaves the alias unresolved);
   - Class.resolved_bases (get_member of the base's canonical path, final_target of an alias, unresolvable bases dropped)
     and the `is_class` filter of Class._mro;
   - Class._mro / mro() and Object.inherited_members: C07's model (Model/C07_mro.v: c3linear_merge, the path-based cycle
     guard, the reverse-MRO loop with dict-assignment semantics, {} when the MRO cannot be computed), reused unchanged;
   - the aliases Object.inherited_members materialises (`Alias(name, member, parent=self, inherited=True)`): one fresh
     node per (class, inherited name), appended after the raw nodes, public = None, target = the member of the providing
     class.

   Not modelled: a target path that walks *through* an alias (GetMembersMixin.get_member on an alias manufactures
   per-member aliases with new paths); [walk] answers WThrough and [rwf] rejects such stores.  Valid `from m import n`
   statements never produce them (m is a real module).  Executable definitions only. *)
From Coq Require Import List Arith Bool ZArith String Ascii.
From Verif Require Import Lib.Sexp Model.C10_kinds Gen.C10_tables Model.C10_diff Model.C11_apidiff.
From Verif Require Model.C07_mro.
Import ListNotations.
Open Scope string_scope. Open Scope list_scope. Open Scope nat_scope.

Inductive rbody :=
| RModule (exports : option (list string)) (imports : list string) (members : list (string * nat))
| RClass (imports : list string) (bases : list nat) (bpaths : list (list string)) (members : list (string * nat))
| RFunction (s : sig) (ret : option nat)
| RAttribute (value : option nat) (vpath : option (list string))   (* vpath: canonical path of the value when it is a name / dotted name *)
| RAlias (tpath : list string).
Record rnode := mkR { rname : string; rpublic : option bool; rbody_of : rbody }.
Record rstore := mkRS { rnodes : list rnode; rcoll : list (string * nat) }.

Definition rget (r : rstore) (i : nat) : option rnode := nth_error (rnodes r) i.
Definition rmembers (n : rnode) : list (string * nat) :=
  match rbody_of n with RModule _ _ ms => ms | RClass _ _ _ ms => ms | _ => [] end.
Definition r_is_alias (n : rnode) : bool := match rbody_of n with RAlias _ => true | _ => false end.
Definition r_is_class (n : rnode) : bool := match rbody_of n with RClass _ _ _ _ => true | _ => false end.
Definition rtpath (n : rnode) : option (list string) := match rbody_of n with RAlias p => Some p | _ => None end.
Definition rbpaths (n : rnode) : list (list string) := match rbody_of n with RClass _ _ bp _ => bp | _ => [] end.

(* ---- ModulesCollection.get_member / GetMembersMixin.get_member: `self.members[parts[0]].get_member(parts[1:])` ---- *)
Inductive wres := WOk (i : nat) | WKey | WThrough.
Fixpoint walk_from (g : list rnode) (cur : nat) (parts : list string) : wres :=
  match parts with
  | [] => WOk cur
  | p :: rest =>
    match nth_error g cur with
    | None => WKey
    | Some n => if r_is_alias n then WThrough
                else match lookup p (rmembers n) with Some j => walk_from g j rest | None => WKey end
    end
  end.
Definition walk (r : rstore) (parts : list string) : wres :=
  match parts with
  | [] => WKey
  | top :: rest => match lookup top (rcoll r) with Some i => walk_from (rnodes r) i rest | None => WKey end
  end.

(* ---- Alias.target of alias i.  [passed]: the aliases whose _passed_through flag is set (the chain being resolved).
   TRes t: the immediate target (the whole chain below it reaches an object); KeyError anywhere -> AliasResolutionError;
   coming back to an alias of the chain -> CyclicAliasError.  Fuel: one unit per link; [chase_fuel] always suffices
   (Proofs/C11_elab.v: outcome_fuel_irrelevant) -- running out would be reported as TCyc and never happens. ---- *)
Fixpoint chase (r : rstore) (fuel : nat) (passed : list nat) (i : nat) : tgt :=
  match fuel with
  | 0 => TCyc
  | S f =>
    match rget r i with
    | None => TUnres
    | Some n =>
      match rtpath n with
      | None => TUnres
      | Some parts =>
        match walk r parts with
        | WKey | WThrough => TUnres
        | WOk t =>
          if nmem t (i :: passed) then TCyc
          else match rget r t with
               | None => TUnres
               | Some tn => if r_is_alias tn
                            then match chase r f (i :: passed) t with TRes _ => TRes t | e => e end
                            else TRes t
               end
        end
      end
    end
  end.
Definition chase_fuel (r : rstore) : nat := S (List.length (rnodes r)).
Definition outcome (r : rstore) (i : nat) : tgt := chase r (chase_fuel r) [] i.

(* Alias.final_target, for an alias or an object *)
Fixpoint final (r : rstore) (fuel : nat) (i : nat) : option nat :=
  match fuel with
  | 0 => None
  | S f => match rget r i with
           | None => None
           | Some n => if r_is_alias n then match outcome r i with TRes t => final r f t | _ => None end else Some i
           end
  end.

(* Class.resolved_bases: get_member(base_path), final_target of an alias, then the loop that follows a base named through a plain
   assignment (`Base = Class`: an attribute whose value is a name / dotted name) down to the object it names -- get_member of the
   value's canonical path, final_target again, KeyError when a path comes back (followed set).  None = an exception
   (KeyError / AliasResolutionError / CyclicAliasError): the base is dropped.  Fuel: one unit per followed attribute. *)
Definition rvpath (n : rnode) : option (list string) := match rbody_of n with RAttribute _ vp => vp | _ => None end.
Definition locate (r : rstore) (p : list string) : option nat :=
  match walk r p with WOk t => final r (chase_fuel r) t | _ => None end.
Fixpoint follow (r : rstore) (fuel : nat) (followed : list nat) (o : nat) : option nat :=
  match fuel with
  | 0 => None
  | S f =>
    match rget r o with
    | None => None
    | Some n =>
      match rvpath n with
      | None => Some o
      | Some vp => match locate r vp with
                   | Some o' => if nmem o' followed then None else follow r f (o' :: followed) o'
                   | None => None end
      end
    end
  end.
(* + `if base.is_class` of _mro *)
Definition resolve_base (r : rstore) (bp : list string) : list nat :=
  match locate r bp with
  | Some o0 => match follow r (chase_fuel r) [o0] o0 with
               | Some o => match rget r o with Some n => if r_is_class n then [o] else [] | None => [] end
               | None => [] end
  | None => []
  end.
Definition rbases (r : rstore) (n : rnode) : list nat := flat_map (resolve_base r) (rbpaths n).

(* the class table C07's model works on: same indices as the raw store *)
Definition to_tbl (r : rstore) : C07_mro.tbl :=
  map (fun n => C07_mro.mkCls "" (rbases r n) (map fst (rmembers n))) (rnodes r).

(* Object.inherited_members of class c: (name, index of the member of the providing class) in dict order *)
Definition inh_raw (r : rstore) (c : nat) : list (string * nat) :=
  match rget r c with
  | Some cn =>
    if r_is_class cn then
      flat_map (fun na => match rget r (C07_mro.al_owner (snd na)) with
                          | Some kn => match lookup (fst na) (rmembers kn) with Some m => [(fst na, m)] | None => [] end
                          | None => [] end)
               (C07_mro.inherited_members (to_tbl r) c)
    else []
  | None => []
  end.

(* ---- layout of the elaborated store: raw nodes first, then the inherited aliases class by class ---- *)
Definition inhs (r : rstore) : list (list (string * nat)) := map (inh_raw r) (seq 0 (List.length (rnodes r))).
Definition offset (ll : list (list (string * nat))) (c : nat) : nat := List.length (List.concat (firstn c ll)).
Definition number (base : nat) (l : list (string * nat)) : list (string * nat) :=
  combine (map fst l) (seq base (List.length l)).

Definition elab_body (r : rstore) (ll : list (list (string * nat))) (i : nat) (n : rnode) : body :=
  match rbody_of n with
  | RModule e im ms => BModule e im ms
  | RClass im bs _ ms => BClass im bs (number (List.length (rnodes r) + offset ll i) (nth i ll [])) ms
  | RFunction s t => BFunction s t
  | RAttribute v _ => BAttribute v
  | RAlias _ => BAlias (outcome r i)
  end.
Definition elab_node (r : rstore) (ll : list (list (string * nat))) (i : nat) (n : rnode) : node :=
  mkNode (rname n) (rpublic n) (elab_body r ll i n).
Definition inh_node (nm : string * nat) : node := mkNode (fst nm) None (BAlias (TRes (snd nm))).
Fixpoint mapi_from {A B} (f : nat -> A -> B) (k : nat) (l : list A) : list B :=
  match l with [] => [] | x :: t => f k x :: mapi_from f (S k) t end.
Definition elab (r : rstore) : store :=
  let ll := inhs r in mapi_from (elab_node r ll) 0 (rnodes r) ++ map inh_node (List.concat ll).
(* which (class, name) each extra node stands for: its path is <class path>.<name> *)
Definition extra_keys (r : rstore) : list (nat * string) :=
  List.concat (mapi_from (fun c l => map (fun nm => (c, fst nm)) l) 0 (inhs r)).

(* ---- well-formed raw stores (what the abstraction of a loaded tree guarantees) ---- *)
Definition rids_ok (r : rstore) (n : rnode) : bool :=
  forallb (fun nm => Nat.ltb (snd nm) (List.length (rnodes r))) (rmembers n).
Definition rsig_ok (n : rnode) : bool := match rbody_of n with RFunction s _ => nodup_names s | _ => true end.
Definition no_through (r : rstore) (n : rnode) : bool :=
  match rbody_of n with
  | RAlias p => match walk r p with WThrough => false | _ => true end
  | RClass _ _ bps _ => forallb (fun p => match walk r p with WThrough => false | _ => true end) bps
  | RAttribute _ (Some p) => match walk r p with WThrough => false | _ => true end
  | _ => true
  end.
Definition rwf (r : rstore) : bool :=
  forallb (fun n => rids_ok r n && nodup_keys (rmembers n) && rsig_ok n && no_through r n) (rnodes r) &&
  forallb (fun kv => Nat.ltb (snd kv) (List.length (rnodes r))) (rcoll r).

(* CPython's view of a name on class c, on the raw store: the declared member, else the member of the first class of the
   MRO that declares it (find_name_in_mro); None when nothing provides it or the MRO cannot be computed *)
Definition provider (r : rstore) (c : nat) (n : string) : option nat :=
  match rget r c with
  | None => None
  | Some cn =>
    match lookup n (rmembers cn) with
    | Some m => Some m
    | None =>
      match C07_mro.griffe_mro (to_tbl r) c with
      | C07_mro.Ok m =>
        match C07_mro.first_definer (to_tbl r) m n with
        | Some k => match rget r k with Some kn => lookup n (rmembers kn) | None => None end
        | None => None end
      | _ => None end
    end
  end.

(* ---- s-expression interface ---- *)
Definition dec_path : sexp -> option (list string) := as_list_of as_str.
Definition dec_rbody (s : sexp) : option rbody :=
  match s with
  | SList [SStr "module"; ex; im; ms] =>
      do ex' <- as_opt dec_strs ex; do im' <- dec_strs im; do ms' <- dec_members ms; Some (RModule ex' im' ms')
  | SList [SStr "class"; im; bs; bps; ms] =>
      do im' <- dec_strs im; do bs' <- as_list_of as_nat bs; do bps' <- as_list_of dec_path bps; do ms' <- dec_members ms;
      Some (RClass im' bs' bps' ms')
  | SList [SStr "function"; sg; ret] => do sg' <- dec_sig sg; do ret' <- as_opt as_nat ret; Some (RFunction sg' ret')
  | SList [SStr "attribute"; v; vp] => do v' <- as_opt as_nat v; do vp' <- as_opt dec_path vp; Some (RAttribute v' vp')
  | SList [SStr "alias"; p] => do p' <- dec_path p; Some (RAlias p')
  | _ => None end.
Definition dec_rnode (s : sexp) : option rnode :=
  match s with
  | SList [n; p; b] => do n' <- as_str n; do p' <- as_opt as_bool p; do b' <- dec_rbody b; Some (mkR n' p' b')
  | _ => None end.
Definition dec_rstore (s : sexp) : option rstore :=
  match s with
  | SList [ns; coll] => do ns' <- as_list_of dec_rnode ns; do c' <- dec_members coll; Some (mkRS ns' c')
  | _ => None end.

Definition enc_tgt (t : tgt) : sexp :=
  match t with TRes i => SList [SStr "res"; of_nat i] | TUnres => SList [SStr "unres"] | TCyc => SList [SStr "cyc"] end.
Definition enc_members (ms : list (string * nat)) : sexp := SList (map (fun kv => SList [SStr (fst kv); of_nat (snd kv)]) ms).
Definition enc_mro (x : C07_mro.res (list nat)) : sexp :=
  match x with
  | C07_mro.Ok l => SList [SStr "ok"; SList (map of_nat l)]
  | C07_mro.Fail C07_mro.Inconsistent => SList [SStr "err"; SStr "inconsistent"]
  | C07_mro.Fail C07_mro.Cycle => SList [SStr "err"; SStr "cycle"]
  | C07_mro.OutOfFuel => SList [SStr "fuel"]
  end.
(* per raw node: alias -> its Alias.target outcome; class -> resolved class bases, mro(), inherited (name, member) list *)
Definition enc_view (r : rstore) (i : nat) (n : rnode) : sexp :=
  match rbody_of n with
  | RAlias _ => SList [SStr "alias"; enc_tgt (outcome r i)]
  | RClass _ _ _ _ => SList [SStr "class"; SList (map of_nat (rbases r n)); enc_mro (C07_mro.griffe_mro (to_tbl r) i);
                             enc_members (inh_raw r i)]
  | _ => SList [SStr "other"]
  end.
Definition enc_views (r : rstore) : sexp := SList (mapi_from (enc_view r) 0 (rnodes r)).
Definition enc_extra (r : rstore) : sexp := SList (map (fun cn => SList [of_nat (fst cn); SStr (snd cn)]) (extra_keys r)).
