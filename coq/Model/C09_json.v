(* C09 -- JSON values, the JSON-schema subset used by docs/schema.json, a fuelled validator,
   shape grammars for encoder output, a membership test and the inclusion checker.
   Executable definitions only (proofs are in Proofs/C09_schema.v). *)
From Coq Require Import List ZArith String Ascii Bool Arith.
Import ListNotations.
Open Scope string_scope.
Open Scope list_scope.
Open Scope nat_scope.

(* ---------- JSON ---------- *)

Inductive json :=
| JNull
| JBool (b : bool)
| JInt (z : Z)
| JFloat (integral : bool)          (* a non-int number; only "is its fractional part zero" matters to the subset *)
| JStr (s : string)
| JArr (l : list json)
| JObj (kvs : list (string * json)).

Fixpoint lookup {A} (k : string) (l : list (string * A)) : option A :=
  match l with
  | [] => None
  | (k', v) :: r => if String.eqb k k' then Some v else lookup k r
  end.

Definition key_in {A} (k : string) (l : list (string * A)) : bool :=
  match lookup k l with Some _ => true | None => false end.

Fixpoint str_in (s : string) (l : list string) : bool :=
  match l with [] => false | x :: r => String.eqb s x || str_in s r end.

(* ---------- schemas ---------- *)

Inductive jtype := TNull | TBoolean | TInteger | TNumber | TString | TArray | TObject.

(* const / enum values are strings (the translator refuses anything else). Draft-07: a schema with $ref is only the ref. *)
Inductive schema :=
| SBool (b : bool)
| SRef (r : string)
| SNode (ty : option (list jtype))
        (cst : option string)
        (enm : option (list string))
        (props : list (string * schema))
        (req : list string)
        (addl : option schema)
        (items : option schema)
        (oneof : option (list schema))
        (allof : list schema)
        (cond : option (schema * schema)).

(* kinds of JSON values as seen by the `type` keyword *)
Inductive jkind := KNull | KBool | KInt | KFloatInt | KFloat | KStr | KArr | KObj.

Definition kind_of (j : json) : jkind :=
  match j with
  | JNull => KNull | JBool _ => KBool | JInt _ => KInt
  | JFloat true => KFloatInt | JFloat false => KFloat
  | JStr _ => KStr | JArr _ => KArr | JObj _ => KObj
  end.

Definition kind_sat (k : jkind) (t : jtype) : bool :=
  match k, t with
  | KNull, TNull => true
  | KBool, TBoolean => true
  | KInt, TInteger => true | KInt, TNumber => true
  | KFloatInt, TInteger => true | KFloatInt, TNumber => true
  | KFloat, TNumber => true
  | KStr, TString => true
  | KArr, TArray => true
  | KObj, TObject => true
  | _, _ => false
  end.

Definition kind_ok (k : jkind) (tys : list jtype) : bool := existsb (kind_sat k) tys.

(* three-valued conjunction: false wins, then "no verdict", then true *)
Fixpoint all3 (l : list (option bool)) : option bool :=
  match l with
  | [] => Some true
  | x :: r =>
      match x, all3 r with
      | Some false, _ => Some false
      | _, Some false => Some false
      | Some true, Some true => Some true
      | _, _ => None
      end
  end.

Definition forall3 {A} (f : A -> option bool) (l : list A) : option bool := all3 (map f l).

(* number of branches that hold; None if some branch has no verdict *)
Fixpoint count3 (l : list (option bool)) : option nat :=
  match l with
  | [] => Some 0
  | x :: r =>
      match x, count3 r with
      | Some b, Some n => Some (if b then S n else n)
      | _, _ => None
      end
  end.

Definition resolve (root : schema) (defs : list (string * schema)) (r : string) : option schema :=
  if String.eqb r "#" then Some root
  else match r with
       | String "#" (String "/" (String "$" (String "d" (String "e" (String "f" (String "s" (String "/" name))))))) => lookup name defs
       | _ => None
       end.

Section Validate.
  Variable root : schema.
  Variable defs : list (string * schema).

  (* keyword evaluators, parameterised by the recursive call *)
  Definition v_type (ty : option (list jtype)) (j : json) : option bool :=
    match ty with None => Some true | Some tys => Some (kind_ok (kind_of j) tys) end.

  Definition v_const (c : option string) (j : json) : option bool :=
    match c with
    | None => Some true
    | Some c => Some (match j with JStr s => String.eqb s c | _ => false end)
    end.

  Definition v_enum (e : option (list string)) (j : json) : option bool :=
    match e with
    | None => Some true
    | Some l => Some (match j with JStr s => str_in s l | _ => false end)
    end.

  Definition v_props (rec : schema -> json -> option bool) (props : list (string * schema)) (j : json) : option bool :=
    match j with
    | JObj kvs => forall3 (fun kv => match lookup (fst kv) props with Some ps => rec ps (snd kv) | None => Some true end) kvs
    | _ => Some true
    end.

  Definition v_req (req : list string) (j : json) : option bool :=
    match j with
    | JObj kvs => Some (forallb (fun k => key_in k kvs) req)
    | _ => Some true
    end.

  Definition v_addl (rec : schema -> json -> option bool) (props : list (string * schema)) (addl : option schema) (j : json) : option bool :=
    match addl, j with
    | Some a, JObj kvs => forall3 (fun kv => if key_in (fst kv) props then Some true else rec a (snd kv)) kvs
    | _, _ => Some true
    end.

  Definition v_items (rec : schema -> json -> option bool) (items : option schema) (j : json) : option bool :=
    match items, j with
    | Some it, JArr l => forall3 (rec it) l
    | _, _ => Some true
    end.

  Definition v_oneof (rec : schema -> json -> option bool) (oneof : option (list schema)) (j : json) : option bool :=
    match oneof with
    | None => Some true
    | Some l => match count3 (map (fun s => rec s j) l) with
                | Some n => Some (Nat.eqb n 1)
                | None => None
                end
    end.

  Definition v_allof (rec : schema -> json -> option bool) (allof : list schema) (j : json) : option bool :=
    forall3 (fun s => rec s j) allof.

  Definition v_cond (rec : schema -> json -> option bool) (cond : option (schema * schema)) (j : json) : option bool :=
    match cond with
    | None => Some true
    | Some (i, t) => match rec i j with
                     | Some true => rec t j
                     | Some false => Some true
                     | None => None
                     end
    end.

  (* None = no verdict within the fuel (or a dangling $ref, which the translator excludes) *)
  Fixpoint validates (n : nat) (s : schema) (j : json) {struct n} : option bool :=
    match n with
    | 0 => None
    | S n' =>
        match s with
        | SBool b => Some b
        | SRef r => match resolve root defs r with Some s' => validates n' s' j | None => None end
        | SNode ty cst enm props req addl items oneof allof cond =>
            all3 [ v_type ty j; v_const cst j; v_enum enm j;
                   v_props (validates n') props j; v_req req j; v_addl (validates n') props addl j;
                   v_items (validates n') items j; v_oneof (validates n') oneof j;
                   v_allof (validates n') allof j; v_cond (validates n') cond j ]
        end
    end.
End Validate.

(* ---------- shape grammars (what an encoder can emit) ---------- *)

Inductive shape :=
| ShNull | ShBool | ShInt | ShStr
| ShLit (s : string)                               (* exactly this string *)
| ShArr (e : shape)                                (* array, every element of shape e *)
| ShObj (fields : list (string * (bool * shape)))  (* object with keys among these; flag = always present *)
| ShMap (v : shape)                                (* object with arbitrary keys, every value of shape v *)
| ShAny                                            (* any JSON value *)
| ShUnion (l : list shape)
| ShRef (nt : string).                             (* nonterminal *)

Definition grammar := list (string * shape).

Section Grammar.
  Variable G : grammar.

  (* membership with explicit derivation height *)
  Definition mem_step (rec : shape -> json -> bool) (sh : shape) (j : json) : bool :=
    match sh, j with
    | ShNull, JNull => true
    | ShBool, JBool _ => true
    | ShInt, JInt _ => true
    | ShStr, JStr _ => true
    | ShLit c, JStr s => String.eqb s c
    | ShArr e, JArr l => forallb (rec e) l
    | ShObj fs, JObj kvs =>
        forallb (fun kv => match lookup (fst kv) fs with Some (_, fsh) => rec fsh (snd kv) | None => false end) kvs
        && forallb (fun f => negb (fst (snd f)) || key_in (fst f) kvs) fs
    | ShMap v, JObj kvs => forallb (fun kv => rec v (snd kv)) kvs
    | ShAny, _ => true
    | ShUnion l, _ => existsb (fun a => rec a j) l
    | ShRef nt, _ => match lookup nt G with Some sh' => rec sh' j | None => false end
    | _, _ => false
    end.

  Fixpoint mem (h : nat) (sh : shape) (j : json) {struct h} : bool :=
    match h with
    | 0 => false
    | S h' => mem_step (mem h') sh j
    end.

  Definition kinds_of (sh : shape) : list jkind :=
    match sh with
    | ShNull => [KNull] | ShBool => [KBool] | ShInt => [KInt]
    | ShStr => [KStr] | ShLit _ => [KStr]
    | ShArr _ => [KArr] | ShObj _ => [KObj] | ShMap _ => [KObj]
    | _ => [KNull; KBool; KInt; KFloatInt; KFloat; KStr; KArr; KObj]
    end.

  Definition may_be_string (sh : shape) : bool := existsb (fun k => match k with KStr => true | _ => false end) (kinds_of sh).

  Variable root : schema.
  Variable defs : list (string * schema).
  Variable root_nt : string.     (* the pair (ShRef root_nt, SRef "#") is the coinductive assumption *)

  Definition is_true_schema (s : schema) : bool := match s with SBool true => true | _ => false end.

  Definition is_root_pair (nt : string) (s : schema) : bool :=
    match s with SRef r => String.eqb nt root_nt && String.eqb r "#" | _ => false end.

  (* ---- per-keyword checks, parameterised by the recursive calls ---- *)

  (* inclusion: every document of (basic) shape sh passes the keyword *)
  Definition i_type (ty : option (list jtype)) (sh : shape) : bool :=
    match ty with None => true | Some tys => forallb (fun k => kind_ok k tys) (kinds_of sh) end.
  Definition i_const (cst : option string) (sh : shape) : bool :=
    match cst with None => true | Some c => match sh with ShLit c' => String.eqb c' c | _ => false end end.
  Definition i_enum (enm : option (list string)) (sh : shape) : bool :=
    match enm with None => true | Some l => match sh with ShLit c' => str_in c' l | _ => false end end.
  Definition i_props (inc : shape -> schema -> bool) (props : list (string * schema)) (sh : shape) : bool :=
    match sh with
    | ShObj fs => forallb (fun p => match lookup (fst p) fs with Some (_, fsh) => inc fsh (snd p) | None => true end) props
    | ShMap v => forallb (fun p => inc v (snd p)) props
    | ShAny => forallb (fun p => is_true_schema (snd p)) props
    | _ => true
    end.
  Definition i_req (req : list string) (sh : shape) : bool :=
    match sh with
    | ShObj fs => forallb (fun k => match lookup k fs with Some (true, _) => true | _ => false end) req
    | ShMap _ | ShAny => match req with [] => true | _ => false end
    | _ => true
    end.
  Definition i_addl (inc : shape -> schema -> bool) (props : list (string * schema)) (addl : option schema) (sh : shape) : bool :=
    match addl with
    | None => true
    | Some a =>
        match sh with
        | ShObj fs => forallb (fun f => if key_in (fst f) props then true else inc (snd (snd f)) a) fs
        | ShMap v => inc v a
        | ShAny => is_true_schema a
        | _ => true
        end
    end.
  Definition i_items (inc : shape -> schema -> bool) (items : option schema) (sh : shape) : bool :=
    match items with
    | None => true
    | Some it =>
        match sh with
        | ShArr e => inc e it
        | ShAny => is_true_schema it
        | _ => true
        end
    end.
  (* exactly one branch holds: one is included, all the others are excluded *)
  Fixpoint one_of (inc exc : schema -> bool) (l : list schema) : bool :=
    match l with
    | [] => false
    | x :: r => (inc x && forallb exc r) || (exc x && one_of inc exc r)
    end.
  Definition i_oneof (inc exc : schema -> bool) (oneof : option (list schema)) : bool :=
    match oneof with None => true | Some l => one_of inc exc l end.
  Definition i_cond (inc exc : schema -> bool) (cond : option (schema * schema)) : bool :=
    match cond with
    | None => true
    | Some (i, t) => (inc i && inc t) || exc i
    end.

  (* exclusion: no document of (basic) shape sh passes the keyword *)
  Definition e_type (ty : option (list jtype)) (sh : shape) : bool :=
    match ty with None => false | Some tys => forallb (fun k => negb (kind_ok k tys)) (kinds_of sh) end.
  Definition e_const (cst : option string) (sh : shape) : bool :=
    match cst with
    | None => false
    | Some c => match sh with ShLit c' => negb (String.eqb c' c) | _ => negb (may_be_string sh) end
    end.
  Definition e_enum (enm : option (list string)) (sh : shape) : bool :=
    match enm with
    | None => false
    | Some l => match sh with ShLit c' => negb (str_in c' l) | _ => negb (may_be_string sh) end
    end.
  Definition e_props (exc : shape -> schema -> bool) (props : list (string * schema)) (sh : shape) : bool :=
    match sh with
    | ShObj fs => existsb (fun f => match lookup (fst f) fs, lookup (fst f) props with
                                    | Some (true, fsh), Some ps => exc fsh ps
                                    | _, _ => false
                                    end) fs
    | _ => false
    end.
  Definition e_req (req : list string) (sh : shape) : bool :=
    match sh with
    | ShObj fs => existsb (fun k => negb (key_in k fs)) req
    | _ => false
    end.
  Definition e_addl (exc : shape -> schema -> bool) (props : list (string * schema)) (addl : option schema) (sh : shape) : bool :=
    match addl with
    | None => false
    | Some a =>
        match sh with
        | ShObj fs => existsb (fun f => negb (key_in (fst f) props)
                                        && match lookup (fst f) fs with Some (true, fsh) => exc fsh a | _ => false end) fs
        | _ => false
        end
    end.

  Definition excl_basic (exc : shape -> schema -> bool) (sh : shape) (s : schema) : bool :=
    match s with
    | SBool b => negb b
    | SRef r => match resolve root defs r with Some s' => exc sh s' | None => false end
    | SNode ty cst enm props req addl items oneof allof cond =>
        e_type ty sh || e_const cst sh || e_enum enm sh || e_props exc props sh || e_req req sh
        || e_addl exc props addl sh || existsb (exc sh) allof
    end.

  Definition incl_basic (inc exc : shape -> schema -> bool) (sh : shape) (s : schema) : bool :=
    match s with
    | SBool b => b
    | SRef r => match resolve root defs r with Some s' => inc sh s' | None => false end
    | SNode ty cst enm props req addl items oneof allof cond =>
        i_type ty sh && i_const cst sh && i_enum enm sh && i_props inc props sh && i_req req sh
        && i_addl inc props addl sh && i_items inc items sh && i_oneof (inc sh) (exc sh) oneof
        && forallb (inc sh) allof && i_cond (inc sh) (exc sh) cond
    end.

  (* incl n sh s = true : every document of shape sh validates against s.
     excl n sh s = true : no document of shape sh validates against s.  Both fail closed (false) when unsure or out of fuel. *)
  Fixpoint excl (n : nat) (sh : shape) (s : schema) {struct n} : bool :=
    match n with
    | 0 => false
    | S n' =>
        match sh with
        | ShUnion l => forallb (fun a => excl n' a s) l
        | ShRef nt => match lookup nt G with Some sh' => excl n' sh' s | None => false end
        | _ => excl_basic (excl n') sh s
        end
    end.

  Fixpoint incl (n : nat) (sh : shape) (s : schema) {struct n} : bool :=
    match n with
    | 0 => false
    | S n' =>
        match sh with
        | ShUnion l => forallb (fun a => incl n' a s) l
        | ShRef nt =>
            if is_root_pair nt s then true
            else match lookup nt G with Some sh' => incl n' sh' s | None => false end
        | _ => incl_basic (incl n') (excl n') sh s
        end
    end.
End Grammar.

Fixpoint json_depth (j : json) : nat :=
  match j with
  | JArr l => S (fold_right (fun x acc => Nat.max (json_depth x) acc) 0 l)
  | JObj kvs => S (fold_right (fun kv acc => Nat.max (json_depth (snd kv)) acc) 0 kvs)
  | _ => 1
  end.
