(* C05 model.  Griffe side: agents/visitor.py (visit_import, visit_importfrom, __all__ handling), loader.py (expand_exports,
   expand_wildcards, _expand_wildcard with the line-number overwrite rule, the self-alias skip and the submodule special
   case), mixins.py (is_wildcard_exposed), models.py (alias chains: target_path / final_target; Alias.members rebasing).
   Authority side: CPython's import statement semantics over the same statement grammar (py_import).
   Executable definitions only. *)
From Coq Require Import List ZArith String Ascii Bool Arith.
From Verif Require Import Lib.Sexp.
Import ListNotations.
Open Scope string_scope.
Open Scope list_scope.
Open Scope nat_scope.

(* ------------------------------------------------------------------------------------------------------------ *)
(* names, dotted paths, dictionaries with Python's insertion-order semantics                                     *)
(* ------------------------------------------------------------------------------------------------------------ *)
Definition path := list string.

Fixpoint path_eqb (a b : path) : bool :=
  match a, b with
  | [], [] => true
  | x :: a', y :: b' => String.eqb x y && path_eqb a' b'
  | _, _ => false
  end.

Definition mem_path (p : path) (l : list path) : bool := existsb (path_eqb p) l.
Definition mem_str (s : string) (l : list string) : bool := existsb (String.eqb s) l.

Definition starts_underscore (s : string) : bool :=
  match s with String c _ => Ascii.eqb c "_"%char | EmptyString => false end.

Fixpoint ends_dunder_aux (s : string) : bool :=        (* s ends with "__" *)
  match s with
  | String a (String b EmptyString) => Ascii.eqb a "_"%char && Ascii.eqb b "_"%char
  | String _ r => ends_dunder_aux r
  | EmptyString => false
  end.
Definition is_dunder (s : string) : bool :=
  match s with
  | String a (String b _) => Ascii.eqb a "_"%char && Ascii.eqb b "_"%char && ends_dunder_aux s
  | _ => false
  end.

Fixpoint lookup {A} (n : string) (l : list (string * A)) : option A :=
  match l with [] => None | (k, v) :: r => if String.eqb k n then Some v else lookup n r end.
(* dict assignment: keeps the position of an existing key, appends a new one *)
Fixpoint assign {A} (n : string) (v : A) (l : list (string * A)) : list (string * A) :=
  match l with
  | [] => [(n, v)]
  | (k, w) :: r => if String.eqb k n then (k, v) :: r else (k, w) :: assign n v r
  end.
Fixpoint remove_key {A} (n : string) (l : list (string * A)) : list (string * A) :=
  match l with [] => [] | (k, v) :: r => if String.eqb k n then r else (k, v) :: remove_key n r end.

(* ------------------------------------------------------------------------------------------------------------ *)
(* programs                                                                                                      *)
(* ------------------------------------------------------------------------------------------------------------ *)
Inductive okind := KClass | KFunc | KAttr.

(* an element of an __all__ value: a string, or a name to be expanded later (`local.__all__` when attr, else the bare name
   `local`, bound by `from m import __all__ as local`) *)
Inductive item := IStr (s : string) | IRef (local : string) (attr : bool).

Inductive stmt :=
| SDef (ln : nat) (n : string) (k : okind)                              (* class n / def n *)
| SFrom (ln : nat) (tgt : path) (n : string) (asn : option string) (bare : bool)
                                                                        (* from tgt import n [as asn]; bare: written `from . import n` *)
| SStar (ln : nat) (tgt : path)                                         (* from tgt import * *)
| SImport (ln : nat) (tgt : path) (asn : option string)                 (* import a.b.c [as asn] *)
| SSetAll (ln : nat) (its : list item)                                  (* __all__ = ... *)
| SAddAll (ln : nat) (its : list item)                                  (* __all__ += ... *)
| SExtAll (ln : nat) (its : list item).                                 (* __all__.extend(...) *)

Record modsrc := mkSrc { ms_path : path; ms_init : bool; ms_children : list string; ms_body : list stmt }.

(* ------------------------------------------------------------------------------------------------------------ *)
(* Griffe: members                                                                                               *)
(* ------------------------------------------------------------------------------------------------------------ *)
Inductive member :=
| MObj (k : okind) (ln : nat)                       (* object defined here *)
| MSub                                              (* submodule (Module.lineno is None) *)
| MAlias (tgt : path) (ln : nat) (star : bool)      (* Alias(name, "dotted.path"): star = wildcard pseudo-member `a/b/*` *)
| MWrap (src : path) (inner : member) (ln : nat).   (* Alias(name, <member object that lived at src>) made by wildcard expansion *)

Record modst := mkSt { members : list (string * member); imports : list string; exports : option (list item) }.

Definition is_alias (m : member) : bool := match m with MAlias _ _ _ | MWrap _ _ _ => true | _ => false end.
Definition alias_target_path (m : member) : path :=
  match m with MAlias t _ _ => t | MWrap s _ _ => s | _ => [] end.
(* old_member.alias_lineno if old_member.is_alias else old_member.lineno, then `or 0` *)
Definition member_lineno (m : member) : nat :=
  match m with MObj _ l => l | MSub => 0 | MAlias _ l _ => l | MWrap _ _ l => l end.

Definition star_name (tgt : path) : string := String.concat "/" (tgt ++ ["*"]).

Definition set_members (st : modst) (ms : list (string * member)) : modst := mkSt ms (imports st) (exports st).
Definition add_import (st : modst) (n : string) : modst := mkSt (members st) (imports st ++ [n]) (exports st).

(* agents/visitor.py: visit_importfrom / visit_import / handle_attribute(__all__) / visit_augassign *)
Definition visit_stmt (mp : path) (is_init : bool) (st : modst) (s : stmt) : modst :=
  match s with
  | SDef ln n k => set_members st (assign n (MObj k ln) (members st))
  | SFrom ln tgt n asn bare =>
      if bare && is_init && (match asn with None => true | Some _ => false end) then st
      else
        let an := match asn with Some a => a | None => n end in
        let ap := tgt ++ [n] in
        let st' := add_import st an in
        if path_eqb ap (mp ++ [an]) then st' else set_members st' (assign an (MAlias ap ln false) (members st'))
  | SStar ln tgt => set_members st (assign (star_name tgt) (MAlias tgt ln true) (members st))
  | SImport ln tgt asn =>
      match asn with
      | Some a => let st' := add_import st a in set_members st' (assign a (MAlias tgt ln false) (members st'))
      | None => let h := hd "" tgt in
                let st' := add_import st h in set_members st' (assign h (MAlias [h] ln false) (members st'))
      end
  | SSetAll ln its => mkSt (assign "__all__" (MObj KAttr ln) (members st)) (imports st) (Some its)
  | SAddAll ln its => match exports st with
                      | Some e => mkSt (members st) (imports st) (Some (e ++ its))
                      | None => st                         (* AttributeError suppressed *)
                      end
  | SExtAll _ its => match exports st with                  (* visit_expr: __all__.extend(...) *)
                     | Some e => mkSt (members st) (imports st) (Some (e ++ its))
                     | None => st                         (* AttributeError suppressed *)
                     end
  end.

Definition empty_st : modst := mkSt [] [] None.
Definition visit_body (mp : path) (is_init : bool) (body : list stmt) : modst :=
  fold_left (visit_stmt mp is_init) body empty_st.
(* loader._load_submodule: parent_module.set_member(name, submodule), in sorted order after the parent was visited *)
Definition attach_children (st : modst) (cs : list string) : modst :=
  fold_left (fun st c => set_members st (assign c MSub (members st))) cs st.
Definition visit_module (m : modsrc) : modst :=
  attach_children (visit_body (ms_path m) (ms_init m) (ms_body m)) (ms_children m).

(* ------------------------------------------------------------------------------------------------------------ *)
(* module table, path lookup (ModulesCollection.get_member), final targets                                       *)
(* ------------------------------------------------------------------------------------------------------------ *)
Definition table := list (path * modst).

Fixpoint get_mod (t : table) (p : path) : option modst :=
  match t with [] => None | (q, st) :: r => if path_eqb q p then Some st else get_mod r p end.
Fixpoint set_mod (t : table) (p : path) (st : modst) : table :=
  match t with
  | [] => [(p, st)]
  | (q, s) :: r => if path_eqb q p then (q, st) :: r else (q, s) :: set_mod r p st
  end.

Inductive lres := LMod (p : path) | LMem (mp : path) (n : string) (m : member) | LNone | LUnsupported.

Fixpoint walk (t : table) (cur : path) (rest : path) : lres :=
  match rest with
  | [] => LMod cur
  | c :: rest' =>
      match get_mod t cur with
      | None => LNone
      | Some st =>
          match lookup c (members st) with
          | None => LNone                                    (* KeyError *)
          | Some MSub => walk t (cur ++ [c]) rest'
          | Some m => match rest' with [] => LMem cur c m | _ => LUnsupported end
          end
      end
  end.
Definition lookup_path (t : table) (top : string) (p : path) : lres :=
  match p with
  | h :: rest => if String.eqb h top then walk t [top] rest else LNone
  | [] => LNone
  end.

Inductive fres := FObj (k : okind) (p : path) | FMod (p : path) | FUnres.

(* Alias.final_target.  A wrapped object (not alias) is looked up again by path: when the object it wraps is later
   replaced in its module, set_member re-targets every alias registered on it to the replacement. *)
Fixpoint final (fuel : nat) (t : table) (top : string) (m : member) (loc : path) : fres :=
  match fuel with
  | 0 => FUnres
  | S f =>
      let follow := fun p => match lookup_path t top p with
                             | LMod q => FMod q
                             | LMem mp n m' => final f t top m' (mp ++ [n])
                             | _ => FUnres
                             end in
      match m with
      | MObj k _ => FObj k loc
      | MSub => FMod loc
      | MAlias tgt _ _ => follow tgt
      | MWrap src inner _ => match inner with
                             | MObj _ _ | MSub => follow src
                             | _ => final f t top inner src
                             end
      end
  end.

(* ------------------------------------------------------------------------------------------------------------ *)
(* mixins.py: is_wildcard_exposed                                                                                *)
(* ------------------------------------------------------------------------------------------------------------ *)
Definition in_exports (n : string) (ex : list item) : bool :=
  existsb (fun it => match it with IStr s => String.eqb s n | IRef _ _ => false end) ex.

Definition wildcard_exposed (st : modst) (n : string) (m : member) : bool :=
  match exports st with
  | Some ex => in_exports n ex
  | None => if starts_underscore n then false
            else match m with MSub => mem_str n (imports st) | _ => true end
  end.
Definition exposed_members (st : modst) : list (string * member) :=
  filter (fun nm => wildcard_exposed st (fst nm) (snd nm)) (members st).

(* ------------------------------------------------------------------------------------------------------------ *)
(* loader.py: the application step of expand_wildcards                                                           *)
(* ------------------------------------------------------------------------------------------------------------ *)
Record expanded_entry := mkE { e_name : string; e_member : member; e_src : path; e_ln : nat }.

Definition fres_eqb (a b : fres) : bool :=
  match a, b with FMod p, FMod q => path_eqb p q | _, _ => false end.

Definition relineno (m : member) (ln : nat) : member :=
  match m with MAlias t _ s => MAlias t ln s | MWrap p i _ => MWrap p i ln | other => other end.

Definition apply_one (fuel : nat) (t : table) (top : string) (mp : path) (ms : list (string * member)) (e : expanded_entry)
  : list (string * member) :=
  let n := e_name e in
  let new := MWrap (e_src e) (e_member e) (e_ln e) in
  let self_alias := is_alias (e_member e) && path_eqb (alias_target_path (e_member e)) (mp ++ [n]) in
  match lookup n ms with
  | None => if self_alias then ms else assign n new ms
  | Some old =>
      let overwrite := Nat.ltb (member_lineno old) (e_ln e) in
      if negb self_alias && overwrite then
        (* special case: do not overwrite a (possibly aliased) submodule with an alias pointing to it *)
        let t' := set_mod t mp (mkSt ms [] None) in
        let prev := final fuel t' top old (mp ++ [n]) in
        match prev with
        | FMod _ => if fres_eqb (final fuel t' top new (mp ++ [n])) prev
                    then (if is_alias old then assign n (relineno old (e_ln e)) ms else ms)   (* kept, but rebound at this line *)
                    else assign n new ms
        | _ => assign n new ms
        end
      else ms
  end.

Definition apply_expanded (fuel : nat) (t : table) (top : string) (mp : path) (ms : list (string * member))
  (es : list expanded_entry) : list (string * member) :=
  fold_left (apply_one fuel t top mp) es ms.

Definition okind_eqb (a b : okind) : bool :=
  match a, b with KClass, KClass | KFunc, KFunc | KAttr, KAttr => true | _, _ => false end.
Fixpoint member_eqb (a b : member) : bool :=
  match a, b with
  | MObj k l, MObj k' l' => okind_eqb k k' && Nat.eqb l l'
  | MSub, MSub => true
  | MAlias t l s, MAlias t' l' s' => path_eqb t t' && Nat.eqb l l' && Bool.eqb s s'
  | MWrap p i l, MWrap p' i' l' => path_eqb p p' && member_eqb i i' && Nat.eqb l l'
  | _, _ => false
  end.

(* alias members that the application step replaced by another alias: set_member re-targets the aliases registered on a
   replaced *object*, not those pointing at a replaced *alias*; whoever resolved (and cached) such a target earlier keeps it *)
Definition is_object (m : member) : bool := match m with MObj _ _ => true | _ => false end.
Definition apply_events (fuel : nat) (t : table) (top : string) (mp : path) (ms : list (string * member))
  (es : list expanded_entry) : list (path * string * member) :=
  snd (fold_left (fun acc e =>
                    let ms := fst acc in
                    let ms' := apply_one fuel t top mp ms e in
                    let ev := match lookup (e_name e) ms, lookup (e_name e) ms' with
                              | Some old, Some new => if (is_alias old || is_object old) && negb (member_eqb (relineno old 0) (relineno new 0)) then [(mp, e_name e, old)] else []
                              | _, _ => []
                              end in
                    (ms', snd acc ++ ev)) es (ms, [])).

(* loader._expand_wildcard: the exposed members of the target, its own unexpanded wildcard imports (`a/b/*` pseudo-members) excepted *)
Definition importable_members (st : modst) : list (string * member) :=
  filter (fun nm => match snd nm with MAlias _ _ true => false | _ => true end) (exposed_members st).
Definition collect (st : modst) (tgt : path) (ln : nat) : list expanded_entry :=
  map (fun nm => mkE (fst nm) (snd nm) (tgt ++ [fst nm]) ln) (importable_members st).

Definition has_star (st : modst) : bool :=
  existsb (fun nm => match snd nm with MAlias _ _ true => true | _ => false end) (members st).

(* ------------------------------------------------------------------------------------------------------------ *)
(* loader.py: expand_exports (real traversal, with `seen`)                                                       *)
(* ------------------------------------------------------------------------------------------------------------ *)
Inductive outcome (A : Type) := Done (a : A) | Crash (e : string) | OutOfFuel.
Arguments Done {A} a. Arguments Crash {A} e. Arguments OutOfFuel {A}.

(* ExprName.__eq__ compares `name` only; str == ExprName is False *)
Definition item_eqb (a b : item) : bool :=
  match a, b with
  | IStr x, IStr y => String.eqb x y
  | IRef l1 a1, IRef l2 a2 => String.eqb (if a1 then "__all__" else l1) (if a2 then "__all__" else l2)
  | _, _ => false
  end.
Definition mem_item (a : item) (l : list item) : bool := existsb (item_eqb a) l.

(* Module.resolve(local) at module level: the member's target path when it is an alias, else its own path *)
Definition resolve_local (mp : path) (st : modst) (local : string) : option path :=
  match lookup local (members st) with
  | Some (MAlias tgt _ _) => Some tgt
  | Some (MWrap src _ _) => Some src
  | Some _ => Some (mp ++ [local])
  | None => None
  end.
(* export.canonical_path.rsplit(".", 1)[0] *)
Definition ref_module_path (mp : path) (st : modst) (local : string) (attr : bool) : option path :=
  match resolve_local mp st local with
  | Some p => Some (if attr then p else removelast p)
  | None => None
  end.

(* the last component of export.canonical_path: `__all__` for `x.__all__` and for a name bound by `from m import __all__ as name` *)
Definition ref_list_name (mp : path) (st : modst) (local : string) (attr : bool) : string :=
  if attr then "__all__" else match resolve_local mp st local with Some p => last p "" | None => "" end.

(* expand_exports: the list can be another module's __all__ imported under another name and imported again from there (a member of the
   module q that is an alias): it is followed to the module it belongs to.  None: the alias does not resolve (the source is skipped) *)
Definition list_owner (fuel : nat) (t : table) (top : string) (q : path) (lname : string) : option path :=
  if String.eqb lname "__all__" then Some q
  else match get_mod t q with
       | Some stq => match lookup lname (members stq) with
                     | Some am => if is_alias am
                                  then match final fuel t top am (q ++ [lname]) with
                                       | FObj _ pth => Some (removelast pth)
                                       | FMod q' => Some q'
                                       | FUnres => None
                                       end
                                  else Some q
                     | None => Some q
                     end
       | None => Some q
       end.

(* the name of the list is not a member of the module it was imported from (it is bound there by a wildcard import that has not been
   expanded yet): the module's own exports are spliced in instead (finding F8) *)
Definition list_missing (t : table) (q0 : path) (lname : string) : bool :=
  negb (String.eqb lname "__all__")
  && match get_mod t q0 with
     | Some stq => match lookup lname (members stq) with None => true | Some _ => false end
     | None => false
     end.

Definition has_ref (ex : option (list item)) : bool :=
  match ex with Some l => existsb (fun it => match it with IRef _ _ => true | _ => false end) l | None => false end.

Record xstate := mkX { xt : table; xseen : list path; xunsup : bool; xdropped : list (path * string);
                       xdone : list path; xpending : list (path * path);
                       xhops : list (path * string) }.   (* members of other modules passed while following a source to its module *)

(* the members (module, name) that `final` passes *)
Fixpoint final_hops (fuel : nat) (t : table) (top : string) (m : member) : list (path * string) :=
  match fuel with
  | 0 => []
  | S f =>
      let follow := fun p => match lookup_path t top p with
                             | LMem mp n m' => (mp, n) :: final_hops f t top m'
                             | _ => []
                             end in
      match m with
      | MObj _ _ | MSub => []
      | MAlias tgt _ _ => follow tgt
      | MWrap src inner _ => match inner with
                             | MObj _ _ | MSub => follow src
                             | _ => final_hops f t top inner
                             end
      end
  end.

Definition set_exports (t : table) (p : path) (ex : option (list item)) : table :=
  match get_mod t p with Some st => set_mod t p (mkSt (members st) (imports st) ex) | None => t end.

Definition merge_exports (acc l : list item) : list item := acc ++ filter (fun e => negb (mem_item e acc)) l.

Fixpoint expx (fuel : nat) (top : string) (mp : path) (s : xstate) : outcome xstate :=
  match fuel with
  | 0 => OutOfFuel
  | S f =>
      let s := mkX (xt s) (mp :: xseen s) (xunsup s) (xdropped s) (xdone s) (xpending s) (xhops s) in
      match get_mod (xt s) mp with
      | None => Done s
      | Some st =>
          let items :=
            fix go (its : list item) (acc : list item) (s : xstate) : outcome (list item * xstate) :=
              match its with
              | [] => Done (acc, s)
              | IStr x :: r => go r (acc ++ [IStr x]) s
              | IRef l a :: r =>
                  (* None: outside the model; Some None: nothing is added (KeyError / unresolvable alias: continue; an object that is
                     not a module: TypeError caught); Some (Some q): the module whose __all__ is spliced in, an alias being followed *)
                  let fl := S (List.length (xt s) * 8 + 64) in
                  let lname := ref_list_name mp st l a in
                  (* the module the path names (an alias of a module is followed), then the owner of the list *)
                  let named : option (option path) :=
                    match ref_module_path mp st l a with
                    | None => None
                    | Some p =>
                        match lookup_path (xt s) top p with
                        | LMod q => Some (Some q)
                        | LMem amp an am =>
                            if is_alias am
                            then match final fl (xt s) top am (amp ++ [an]) with
                                 | FMod q => Some (Some q)
                                 | _ => Some None
                                 end
                            else Some None
                        | LNone => Some None
                        | LUnsupported => None
                        end
                    end in
                  let tgt : option (option path) :=
                    match named with
                    | Some (Some q) => Some (list_owner fl (xt s) top q lname)
                    | other => other
                    end in
                  let hops : list (path * string) :=
                    (match ref_module_path mp st l a with
                     | Some p => match lookup_path (xt s) top p with
                                 | LMem amp an am => (amp, an) :: final_hops fl (xt s) top am
                                 | _ => []
                                 end
                     | None => []
                     end)
                    ++ (match named with
                        | Some (Some q) =>
                            if String.eqb lname "__all__" then []
                            else match get_mod (xt s) q with
                                 | Some stq => match lookup lname (members stq) with
                                               | Some am => if is_alias am then (q, lname) :: final_hops fl (xt s) top am else []
                                               | None => []
                                               end
                                 | None => []
                                 end
                        | _ => []
                        end) in
                  match tgt with
                  | None => go r acc (mkX (xt s) (xseen s) true (xdropped s) (xdone s) (xpending s) (xhops s))
                  | Some None => go r acc (mkX (xt s) (xseen s) (xunsup s) (xdropped s ++ [(mp, l)]) (xdone s) (xpending s) (xhops s))
                  | Some (Some q) =>
                      let missing := match named with Some (Some q0) => list_missing (xt s) q0 lname | _ => false end in
                      let s := mkX (xt s) (xseen s) (xunsup s) (xdropped s ++ (if missing then [(mp, l)] else [])) (xdone s) (xpending s)
                                   (xhops s ++ hops) in
                      let after := if mem_path q (xseen s) then Done s else expx f top q s in
                      match after with
                      | Done s' =>
                          match get_mod (xt s') q with
                          | Some stq => match exports stq with
                                        | Some l' =>
                                            let pend := negb (mem_path q (xdone s')) && has_ref (Some l') in
                                            let s2 := if pend then mkX (xt s') (xseen s') (xunsup s') (xdropped s') (xdone s')
                                                                           (xpending s' ++ [(mp, q)]) (xhops s') else s' in
                                            go r (merge_exports acc l') s2
                                        | None => go r acc s'            (* TypeError caught, warning *)
                                        end
                          | None => go r acc s'
                          end
                      | other => match other with Crash e => Crash e | _ => OutOfFuel end
                      end
                  end
              end in
          (* a module without __all__ has nothing to expand, but its submodules still do *)
          match items (match exports st with Some ex => ex | None => [] end) [] s with
          | Done (expanded, s') =>
              let t'' := match exports st with Some _ => set_exports (xt s') mp (Some expanded) | None => xt s' end in
              let s'' := mkX t'' (xseen s') (xunsup s') (xdropped s') (mp :: xdone s') (xpending s') (xhops s') in
              let subs :=
                fix go (ms : list (string * member)) (s : xstate) : outcome xstate :=
                  match ms with
                  | [] => Done s
                  | (c, MSub) :: r =>
                      if mem_path (mp ++ [c]) (xseen s) then go r s
                      else match expx f top (mp ++ [c]) s with
                           | Done s' => go r s'
                           | other => other
                           end
                  | _ :: r => go r s
                  end in
              subs (members st) s''
          | Crash e => Crash e
          | OutOfFuel => OutOfFuel
          end
      end
  end.

(* every final target an alias can present when each hop that lands on a replaced alias member may still see the replaced one *)
Definition olds_at (rp : list (path * string * member)) (mp : path) (n : string) : list member :=
  flat_map (fun e => match e with (p, x, m) => if path_eqb p mp && String.eqb x n && is_alias m then [m] else [] end) rp.
(* objects (not aliases) that a wildcard expansion replaced: set_member re-targets the aliases registered on them, by path *)
Definition oldobjs_at (rp : list (path * string * member)) (mp : path) (n : string) : list member :=
  flat_map (fun e => match e with (p, x, m) => if path_eqb p mp && String.eqb x n && is_object m then [m] else [] end) rp.
Fixpoint finals (fuel : nat) (t : table) (top : string) (rp : list (path * string * member)) (m : member) (loc : path) : list fres :=
  match fuel with
  | 0 => [FUnres]
  | S f =>
      let follow := fun p => match lookup_path t top p with
                             | LMod q => [FMod q]
                             | LMem mp n m' => finals f t top rp m' (mp ++ [n])
                                               ++ flat_map (fun o => finals f t top rp o (mp ++ [n])) (olds_at rp mp n)
                             | _ => [FUnres]
                             end in
      match m with
      | MObj k _ => [FObj k loc]
      | MSub => [FMod loc]
      | MAlias tgt _ _ => follow tgt
      | MWrap src inner _ => match inner with
                             | MObj _ _ | MSub => follow src
                             | _ => finals f t top rp inner src
                             end
      end
  end.

(* `finals`, plus: an object registers the aliases that lead to it BY PATH.  When an alias member was replaced by another alias of the same
   name (same path), the dead one can take the live one's place in that register (it is re-targeted to the same object later); the object's
   replacement then re-targets the dead alias only, and the live one keeps the replaced object.  So once the chain has passed over a
   position with a replaced alias (`d`), a hop that lands on a replaced object may still present that object. *)
Fixpoint finalsd (fuel : nat) (t : table) (top : string) (rp : list (path * string * member)) (d : bool) (m : member) (loc : path) : list fres :=
  match fuel with
  | 0 => [FUnres]
  | S f =>
      let follow := fun p => match lookup_path t top p with
                             | LMod q => [FMod q]
                             | LMem mp n m' =>
                                 let d' := d || match olds_at rp mp n with [] => false | _ => true end in
                                 finalsd f t top rp d' m' (mp ++ [n])
                                 ++ flat_map (fun o => finalsd f t top rp d' o (mp ++ [n])) (olds_at rp mp n)
                                 ++ (if d' then flat_map (fun o => match o with MObj k _ => [FObj k (mp ++ [n])] | _ => [] end) (oldobjs_at rp mp n) else [])
                             | _ => [FUnres]
                             end in
      match m with
      | MObj k _ => [FObj k loc]
      | MSub => [FMod loc]
      | MAlias tgt _ _ => follow tgt
      | MWrap src inner _ => match inner with
                             | MObj _ _ | MSub => follow src
                             | _ => finalsd f t top rp d inner src
                             end
      end
  end.

(* The submodule special case of apply_one compares two resolutions.  A resolution that passes over an alias member that an earlier
   expansion replaced may still see the replaced alias (resolved and cached earlier: finding F7), so the comparison can go either way:
   such an entry is recorded with the member that the other outcome would leave. *)
Definition decision (r_new r_old : fres) : bool := match r_old with FMod _ => fres_eqb r_new r_old | _ => false end.

Definition apply_ambig (fuel : nat) (t : table) (top : string) (mp : path) (ms : list (string * member)) (es : list expanded_entry)
  (rp : list (path * string * member)) : list (path * string * member) :=
  snd (fold_left (fun acc e =>
                    let ms := fst acc in
                    let amb := snd acc in
                    let n := e_name e in
                    let new := MWrap (e_src e) (e_member e) (e_ln e) in
                    let self_alias := is_alias (e_member e) && path_eqb (alias_target_path (e_member e)) (mp ++ [n]) in
                    let ev := match lookup n ms with
                              | Some old =>
                                  if negb self_alias && Nat.ltb (member_lineno old) (e_ln e) then
                                    let t' := set_mod t mp (mkSt ms [] None) in
                                    let rp' := rp ++ amb in
                                    let olds := finals 14 t' top rp' old (mp ++ [n])
                                                ++ flat_map (fun o => finals 14 t' top rp' o (mp ++ [n])) (olds_at amb mp n) in
                                    let news := finals 14 t' top rp' new (mp ++ [n]) in
                                    let ds := flat_map (fun ro => map (fun rn => decision rn ro) news) olds in
                                    if existsb (fun d => d) ds && existsb negb ds
                                    then [(mp, n, if decision (final fuel t' top new (mp ++ [n])) (final fuel t' top old (mp ++ [n]))
                                                  then new else relineno old (e_ln e))]
                                    else []
                                  else []
                              | None => []
                              end in
                    (apply_one fuel t top mp ms e, amb ++ ev)) es (ms, [])).

(* ------------------------------------------------------------------------------------------------------------ *)
(* loader.py: expand_wildcards (real traversal, with `seen`)                                                     *)
(* ------------------------------------------------------------------------------------------------------------ *)
Record wstate := mkW { wt : table; wseen : list path; wdone : list path;
                       wpending : list (path * path);       (* (reader, module read while its own expansion was pending) *)
                       wunsup : bool;
                       wreplaced : list (path * string * member);
                       wambig : list (path * string * member) }.

Definition set_mod_members (t : table) (p : path) (ms : list (string * member)) : table :=
  match get_mod t p with Some st => set_mod t p (set_members st ms) | None => t end.

Fixpoint expw (fuel : nat) (top : string) (mp : path) (s : wstate) : outcome wstate :=
  match fuel with
  | 0 => OutOfFuel
  | S f =>
      let s := mkW (wt s) (mp :: wseen s) (wdone s) (wpending s) (wunsup s) (wreplaced s) (wambig s) in
      match get_mod (wt s) mp with
      | None => Done s
      | Some st0 =>
          let loop :=
            fix go (ms : list (string * member)) (ex : list expanded_entry) (rm : list string) (s : wstate)
              : outcome (list expanded_entry * list string * wstate) :=
              match ms with
              | [] => Done (ex, rm, s)
              | (n, MAlias tgt ln true) :: r =>
                  match lookup_path (wt s) top tgt with
                  | LMod q =>
                      let after := if mem_path q (wseen s) then Done s else expw f top q s in
                      match after with
                      | Done s' =>
                          match get_mod (wt s') q with
                          | Some stq =>
                              let pend := mem_path q (wseen s) && negb (mem_path q (wdone s')) && has_star stq in
                              let s2 := if pend then mkW (wt s') (wseen s') (wdone s') (wpending s' ++ [(mp, q)]) (wunsup s') (wreplaced s') (wambig s') else s' in
                              go r (ex ++ collect stq q ln) (rm ++ [n]) s2
                          | None => go r ex rm s'
                          end
                      | other => match other with Crash e => Crash e | _ => OutOfFuel end
                      end
                  | LNone => go r ex rm s                                         (* KeyError: continue *)
                  | _ => go r ex rm (mkW (wt s) (wseen s) (wdone s) (wpending s) true (wreplaced s) (wambig s))
                  end
              | (n, MSub) :: r =>
                  if mem_path (mp ++ [n]) (wseen s) then go r ex rm s
                  else match expw f top (mp ++ [n]) s with
                       | Done s' => go r ex rm s'
                       | other => match other with Crash e => Crash e | _ => OutOfFuel end
                       end
              | _ :: r => go r ex rm s
              end in
          match loop (members st0) [] [] s with
          | Done (ex, rm, s') =>
              let ms1 := fold_left (fun ms n => remove_key n ms) rm (members st0) in
              let fl := S (List.length (wt s') * 8 + 64) in
              let ms2 := apply_expanded fl (wt s') top mp ms1 ex in
              Done (mkW (set_mod_members (wt s') mp ms2) (wseen s') (mp :: wdone s') (wpending s') (wunsup s')
                        (wreplaced s' ++ apply_events fl (wt s') top mp ms1 ex)
                        (wambig s' ++ apply_ambig fl (wt s') top mp ms1 ex (wreplaced s' ++ wambig s')))
          | Crash e => Crash e
          | OutOfFuel => OutOfFuel
          end
      end
  end.

(* ------------------------------------------------------------------------------------------------------------ *)
(* whole load: visit every module, expand exports, expand wildcards, read final targets                          *)
(* ------------------------------------------------------------------------------------------------------------ *)
Definition initial_table (ms : list modsrc) : table := map (fun m => (ms_path m, visit_module m)) ms.

Definition total_fuel (ms : list modsrc) : nat :=
  S (List.length ms * 4 + fold_left (fun a m => a + List.length (ms_body m)) ms 0 + 16).

Record loaded := mkL { l_table : table; l_pending : list (path * path); l_unsup : bool;
                       l_dropped : list (path * string); l_replaced : list (path * string * member);
                       l_xpending : list (path * path);
                       l_ambig : list (path * string * member);        (* members the special case may have left instead *)
                       l_stale : list (path * string) }.               (* members a source of an __all__ was followed over and that were replaced afterwards *)

Definition griffe_load (top : string) (ms : list modsrc) : outcome loaded :=
  let fuel := total_fuel ms in
  match expx fuel top [top] (mkX (initial_table ms) [] false [] [] [] []) with
  | Done x =>
      match expw fuel top [top] (mkW (xt x) [] [] [] (xunsup x) [] []) with
      | Done w => Done (mkL (wt w) (wpending w) (wunsup w) (xdropped x) (wreplaced w) (xpending x) (wambig w)
                            (filter (fun h => match olds_at (wreplaced w ++ wambig w) (fst h) (snd h) with [] => false | _ => true end) (xhops x)))
      | Crash e => Crash e
      | OutOfFuel => OutOfFuel
      end
  | Crash e => Crash e
  | OutOfFuel => OutOfFuel
  end.

(* the idealised schedule: the same per-module rules, but every module is processed exactly once, completely (exports, then
   wildcards), in a given dependency order, so that a module is only read after it is complete; a source of __all__ reached
   through an alias of a module is followed to that module *)
Definition sched_exports_items (fuel : nat) (t : table) (top : string) (mp : path) (st : modst) (ex : list item) : list item :=
  fold_left (fun acc it =>
               match it with
               | IStr x => acc ++ [IStr x]
               | IRef l a =>
                   let from_module := fun q0 => match list_owner fuel t top q0 (ref_list_name mp st l a) with
                                                | Some q => match get_mod t q with
                                                            | Some stq => match exports stq with Some l' => merge_exports acc l' | None => acc end
                                                            | None => acc
                                                            end
                                                | None => acc
                                                end in
                   match ref_module_path mp st l a with
                   | Some p => match lookup_path t top p with
                               | LMod q => from_module q
                               | LMem amp an am => match final fuel t top am (amp ++ [an]) with FMod q => from_module q | _ => acc end
                               | _ => acc
                               end
                   | None => acc
                   end
               end) ex [].
Definition sched_exports_step (fuel : nat) (top : string) (t : table) (mp : path) : table :=
  match get_mod t mp with
  | Some st => match exports st with
               | Some ex => set_exports t mp (Some (sched_exports_items fuel t top mp st ex))
               | None => t
               end
  | None => t
  end.
Definition star_entries (t : table) (top : string) (ms : list (string * member)) : list expanded_entry :=
  flat_map (fun nm => match snd nm with
                      | MAlias tgt ln true => match lookup_path t top tgt with
                                              | LMod q => match get_mod t q with Some stq => collect stq q ln | None => [] end
                                              | _ => []
                                              end
                      | _ => []
                      end) ms.
Definition star_names_of (ms : list (string * member)) : list string :=
  flat_map (fun nm => match snd nm with MAlias _ _ true => [fst nm] | _ => [] end) ms.
Definition sched_wild_step (fuel : nat) (top : string) (t : table) (mp : path) : table :=
  match get_mod t mp with
  | Some st =>
      let ex := star_entries t top (members st) in
      let ms1 := fold_left (fun ms n => remove_key n ms) (star_names_of (members st)) (members st) in
      set_mod_members t mp (apply_expanded fuel t top mp ms1 ex)
  | None => t
  end.
Definition sched_step (fuel : nat) (top : string) (t : table) (mp : path) : table :=
  sched_wild_step fuel top (sched_exports_step fuel top t mp) mp.
Definition griffe_sched (top : string) (ms : list modsrc) (order : list path) : table :=
  fold_left (sched_step (S (List.length ms * 8 + 64)) top) order (initial_table ms).

(* ---- observable result: per module, exports and (name -> final target) for non-dunder names ---- *)
Inductive view := VClass (p : path) | VFunc (p : path) | VAttr (p : path) | VModule (p : path) | VUnresolved.

Definition view_of_fres (r : fres) : view :=
  match r with
  | FObj KClass p => VClass p | FObj KFunc p => VFunc p | FObj KAttr p => VAttr p
  | FMod p => VModule p | FUnres => VUnresolved
  end.

Definition module_view (fuel : nat) (t : table) (top : string) (mp : path) (st : modst) : list (string * view) :=
  flat_map (fun nm => if is_dunder (fst nm) then []
                      else [(fst nm, view_of_fres (final fuel t top (snd nm) (mp ++ [fst nm])))]) (members st).
Definition table_view (t : table) (top : string) : list (path * option (list item) * list (string * view)) :=
  let fuel := S (List.length t * 8 + 64) in
  map (fun pst => (fst pst, exports (snd pst), module_view fuel t top (fst pst) (snd pst))) t.

(* ------------------------------------------------------------------------------------------------------------ *)
(* models.py: what a resolved alias presents (Alias.members): the target's members re-wrapped, paths rebased      *)
(* ------------------------------------------------------------------------------------------------------------ *)
Inductive otree := ONode (name : string) (k : okind) (children : list otree).
Definition oname (o : otree) := match o with ONode n _ _ => n end.
Definition okind_of (o : otree) := match o with ONode _ k _ => k end.
Definition ochildren (o : otree) := match o with ONode _ _ c => c end.

(* every object reachable below `o` when `o` is accessed at path `at_`: (path, kind) *)
Fixpoint paths_under (at_ : path) (o : otree) : list (path * okind) :=
  match o with
  | ONode n k cs => (at_, k) :: flat_map (fun c => paths_under (at_ ++ [oname c]) c) cs
  end.
(* Alias.members: {name: Alias(name, target=member, parent=self)}; path of an alias = parent.path + "." + name *)
Fixpoint alias_paths (alias_path : path) (o : otree) : list (path * okind) :=
  match o with
  | ONode n k cs => (alias_path, k) :: flat_map (fun c => alias_paths (alias_path ++ [oname c]) c) cs
  end.
Definition rebase (from to : path) (p : path) : path := to ++ skipn (List.length from) p.

(* ------------------------------------------------------------------------------------------------------------ *)
(* CPython: the import statement semantics, modules executed in a dependency order                                *)
(* ------------------------------------------------------------------------------------------------------------ *)
Inductive value := VObj (k : okind) (p : path) | VMod (p : path) | VAll (p : path).

Record pymod := mkPy { pns : list (string * value); pall : option (list string) }.
Definition pytable := list (path * pymod).

Fixpoint get_py (t : pytable) (p : path) : option pymod :=
  match t with [] => None | (q, m) :: r => if path_eqb q p then Some m else get_py r p end.

Definition children_of (ms : list modsrc) (p : path) : list string :=
  match find (fun m => path_eqb (ms_path m) p) ms with Some m => ms_children m | None => [] end.

Inductive pyres (A : Type) := POk (a : A) | PErr (e : string).
Arguments POk {A} a. Arguments PErr {A} e.

(* may the statement bind the name n in its module's namespace?  (explicit bindings only, see SStar) *)
Definition may_bind (n : string) (s : stmt) : bool :=
  match s with
  | SDef _ x _ => String.eqb x n
  | SFrom _ _ x asn _ => String.eqb (match asn with Some a => a | None => x end) n
  | SStar _ _ => false      (* assumption: a wildcard import never brings in a name equal to a submodule name of the importer *)
  | SImport _ T asn => String.eqb (match asn with Some a => a | None => hd "" T end) n
  | SSetAll _ _ | SAddAll _ _ | SExtAll _ _ => String.eqb n "__all__"
  end.
Definition body_of (ms : list modsrc) (p : path) : list stmt :=
  match find (fun m => path_eqb (ms_path m) p) ms with Some m => ms_body m | None => [] end.

(* getattr(module T, n) as `from T import n` / `from T import *` see it: namespace first, then the submodule T.n.
   When T has not run to completion (an enclosing package that is still being initialised), the only reads given a meaning are
   those of a submodule name that no statement of T can bind: the import system then imports and returns T.n. *)
Definition py_attr (ms : list modsrc) (t : pytable) (T : path) (n : string) : pyres value :=
  match get_py t T with
  | None => if mem_str n (children_of ms T) && negb (existsb (may_bind n) (body_of ms T))
            then match get_py t (T ++ [n]) with Some _ => POk (VMod (T ++ [n])) | None => PErr "not-executed-yet" end
            else PErr "not-executed-yet"
  | Some pm =>
      if String.eqb n "__all__" then
        match pall pm with Some _ => POk (VAll T) | None => PErr "ImportError" end
      else
        match lookup n (pns pm) with
        | Some v => POk v
        | None => if mem_str n (children_of ms T)
                  then match get_py t (T ++ [n]) with Some _ => POk (VMod (T ++ [n])) | None => PErr "not-executed-yet" end
                  else PErr "ImportError"
        end
  end.

Definition py_star_names (pm : pymod) : list string :=
  match pall pm with
  | Some l => l
  | None => map fst (filter (fun nv => negb (starts_underscore (fst nv))) (pns pm))
  end.

Fixpoint py_bind_all (ms : list modsrc) (t : pytable) (T : path) (names : list string) (ns : list (string * value))
  : pyres (list (string * value)) :=
  match names with
  | [] => POk ns
  | n :: r => match py_attr ms t T n with
              | POk v => py_bind_all ms t T r (assign n v ns)
              | PErr e => PErr (if String.eqb e "ImportError" then "AttributeError" else e)
              end
  end.

Fixpoint py_eval_items (t : pytable) (ns : list (string * value)) (its : list item) : pyres (list string) :=
  match its with
  | [] => POk []
  | IStr s :: r => match py_eval_items t ns r with POk l => POk (s :: l) | PErr e => PErr e end
  | IRef l a :: r =>
      let src := match lookup l ns with
                 | Some (VMod T) => if a then Some T else None
                 | Some (VAll T) => if a then None else Some T
                 | _ => None
                 end in
      match src with
      | Some T => match get_py t T with
                  | Some pm => match pall pm with
                               | Some names => match py_eval_items t ns r with POk l' => POk (names ++ l') | PErr e => PErr e end
                               | None => PErr "AttributeError"
                               end
                  | None => PErr "not-executed-yet"
                  end
      | None => PErr "NameError"
      end
  end.

Definition py_stmt (ms : list modsrc) (t : pytable) (mp : path) (pm : pymod) (s : stmt) : pyres pymod :=
  match s with
  | SDef _ n k => POk (mkPy (assign n (VObj k (mp ++ [n])) (pns pm)) (pall pm))
  | SFrom _ T n asn _ =>
      (* `from <this package> import n` inside its own __init__: the partial namespace first, then the submodule *)
      let r := if path_eqb T mp then
                 match lookup n (pns pm) with
                 | Some v => POk v
                 | None => if mem_str n (children_of ms T)
                           then match get_py t (T ++ [n]) with Some _ => POk (VMod (T ++ [n])) | None => PErr "not-executed-yet" end
                           else PErr "ImportError"
                 end
               else py_attr ms t T n in
      match r with
      | POk v => POk (mkPy (assign (match asn with Some a => a | None => n end) v (pns pm)) (pall pm))
      | PErr e => PErr e
      end
  | SStar _ T =>
      match get_py t T with
      | None => PErr "not-executed-yet"
      | Some tm => match py_bind_all ms t T (py_star_names tm) (pns pm) with
                   | POk ns => POk (mkPy ns (pall pm))
                   | PErr e => PErr e
                   end
      end
  | SImport _ T asn =>
      match get_py t T with
      | None => PErr "not-executed-yet"
      | Some _ => match asn with
                  | Some a => POk (mkPy (assign a (VMod T) (pns pm)) (pall pm))
                  | None => let h := hd "" T in POk (mkPy (assign h (VMod [h]) (pns pm)) (pall pm))
                  end
      end
  | SSetAll _ its => match py_eval_items t (pns pm) its with
                     | POk l => POk (mkPy (pns pm) (Some l))
                     | PErr e => PErr e
                     end
  | SAddAll _ its | SExtAll _ its =>
                     match pall pm with
                     | None => PErr "NameError"
                     | Some old => match py_eval_items t (pns pm) its with
                                   | POk l => POk (mkPy (pns pm) (Some (old ++ l)))
                                   | PErr e => PErr e
                                   end
                     end
  end.

Fixpoint py_body (ms : list modsrc) (t : pytable) (mp : path) (pm : pymod) (body : list stmt) : pyres pymod :=
  match body with
  | [] => POk pm
  | s :: r => match py_stmt ms t mp pm s with POk pm' => py_body ms t mp pm' r | PErr e => PErr e end
  end.

Fixpoint py_import (ms : list modsrc) (order : list path) (t : pytable) : pyres pytable :=
  match order with
  | [] => POk t
  | mp :: r =>
      match find (fun m => path_eqb (ms_path m) mp) ms with
      | None => PErr "no-such-module"
      | Some m => match py_body ms t mp (mkPy [] None) (ms_body m) with
                  | POk pm => py_import ms r (t ++ [(mp, pm)])
                  | PErr e => PErr e
                  end
      end
  end.

Definition view_of_value (v : value) : view :=
  match v with
  | VObj KClass p => VClass p | VObj KFunc p => VFunc p | VObj KAttr p => VAttr p
  | VMod p => VModule p | VAll p => VAttr (p ++ ["__all__"])
  end.

(* ------------------------------------------------------------------------------------------------------------ *)
(* agreement of a Griffe table with CPython's namespaces: the statement of the property on the models              *)
(* ------------------------------------------------------------------------------------------------------------ *)
Definition view_eqb (a b : view) : bool :=
  match a, b with
  | VClass p, VClass q | VFunc p, VFunc q | VAttr p, VAttr q | VModule p, VModule q => path_eqb p q
  | _, _ => false
  end.

Definition agree_module (fuel : nat) (t : table) (top : string) (mp : path) (st : modst) (pm : pymod) : bool :=
  (* every name CPython binds is a member whose final target is the object CPython binds *)
  forallb (fun nv => match lookup (fst nv) (members st) with
                     | Some m => view_eqb (view_of_fres (final fuel t top m (mp ++ [fst nv]))) (view_of_value (snd nv))
                     | None => false
                     end) (pns pm)
  (* every member (dunder names and submodules aside) is a name CPython binds *)
  && forallb (fun nm => is_dunder (fst nm) || match snd nm with MSub => true | _ => false end
                        || match lookup (fst nm) (pns pm) with Some _ => true | None => false end) (members st)
  (* Module.exports and __all__ list the same names *)
  && match exports st, pall pm with
     | None, None => true
     | Some ex, Some l => forallb (fun x => in_exports x ex) l
                          && forallb (fun it => match it with IStr x => mem_str x l | IRef _ _ => false end) ex
     | _, _ => false
     end.

Definition agreeb (top : string) (t : table) (pt : pytable) : bool :=
  let fuel := S (List.length t * 8 + 64) in
  forallb (fun ppm => match get_mod t (fst ppm) with
                      | Some st => agree_module fuel t top (fst ppm) st (snd ppm)
                      | None => false
                      end) pt.

(* ------------------------------------------------------------------------------------------------------------ *)
(* s-expression interface                                                                                        *)
(* ------------------------------------------------------------------------------------------------------------ *)
Definition dec_path (s : sexp) : option path := as_list_of as_str s.
Definition dec_kind (s : sexp) : option okind :=
  match s with
  | SStr "class" => Some KClass | SStr "function" => Some KFunc | SStr "attribute" => Some KAttr | _ => None
  end.
Definition dec_item (s : sexp) : option item :=
  match s with
  | SList [SStr "s"; SStr x] => Some (IStr x)
  | SList [SStr "ref"; SStr l; a] => do a' <- as_bool a; Some (IRef l a')
  | _ => None
  end.
Definition dec_stmt (s : sexp) : option stmt :=
  match s with
  | SList [SStr "def"; ln; SStr n; k] => do ln' <- as_nat ln; do k' <- dec_kind k; Some (SDef ln' n k')
  | SList [SStr "from"; ln; tgt; SStr n; asn; bare] =>
      do ln' <- as_nat ln; do tgt' <- dec_path tgt; do asn' <- as_opt as_str asn; do bare' <- as_bool bare;
      Some (SFrom ln' tgt' n asn' bare')
  | SList [SStr "star"; ln; tgt] => do ln' <- as_nat ln; do tgt' <- dec_path tgt; Some (SStar ln' tgt')
  | SList [SStr "import"; ln; tgt; asn] =>
      do ln' <- as_nat ln; do tgt' <- dec_path tgt; do asn' <- as_opt as_str asn; Some (SImport ln' tgt' asn')
  | SList [SStr "setall"; ln; its] => do ln' <- as_nat ln; do its' <- as_list_of dec_item its; Some (SSetAll ln' its')
  | SList [SStr "addall"; ln; its] => do ln' <- as_nat ln; do its' <- as_list_of dec_item its; Some (SAddAll ln' its')
  | SList [SStr "extall"; ln; its] => do ln' <- as_nat ln; do its' <- as_list_of dec_item its; Some (SExtAll ln' its')
  | _ => None
  end.
Definition dec_module (s : sexp) : option modsrc :=
  match s with
  | SList [p; i; cs; body] =>
      do p' <- dec_path p; do i' <- as_bool i; do cs' <- as_list_of as_str cs; do b' <- as_list_of dec_stmt body;
      Some (mkSrc p' i' cs' b')
  | _ => None
  end.

Definition dotted (p : path) : string := String.concat "." p.
Definition enc_view (v : view) : sexp :=
  match v with
  | VClass p => SList [SStr "class"; SStr (dotted p)]
  | VFunc p => SList [SStr "function"; SStr (dotted p)]
  | VAttr p => SList [SStr "attribute"; SStr (dotted p)]
  | VModule p => SList [SStr "module"; SStr (dotted p)]
  | VUnresolved => SList [SStr "unresolved"]
  end.
Definition enc_item (it : item) : sexp :=
  match it with IStr s => SStr s | IRef l a => SList [SStr "ref"; SStr l; of_bool a] end.
Definition enc_names (l : list (string * view)) : sexp :=
  SList (map (fun nv => SList [SStr (fst nv); enc_view (snd nv)]) l).
Definition enc_table_view (tv : list (path * option (list item) * list (string * view))) : sexp :=
  SList (map (fun x => match x with
                       | (p, ex, names) => SList [SStr (dotted p); of_opt (fun l => SList (map enc_item l)) ex; enc_names names]
                       end) tv).
Definition enc_paths (l : list path) : sexp := SList (map (fun p => SStr (dotted p)) l).

(* names whose alias chain passes over a replaced alias member, with every target they may present *)
Definition enc_alts (t : table) (top : string) (rp amb : list (path * string * member)) : sexp :=
  let fuel := 14 in        (* `finals` branches at every replaced member: a small depth bound keeps cyclic packages cheap *)
  let rpa := rp ++ amb in
  match rpa with
  | [] => SList []
  | _ => SList (flat_map (fun pst =>
                  flat_map (fun nm => if is_dunder (fst nm) then []
                                      else let d0 := match olds_at rpa (fst pst) (fst nm) with [] => false | _ => true end in
                                           match finalsd fuel t top rpa d0 (snd nm) (fst pst ++ [fst nm])
                                                 ++ flat_map (fun o => finalsd fuel t top rpa d0 o (fst pst ++ [fst nm])) (olds_at amb (fst pst) (fst nm)) with
                                           | [_] => []
                                           | l => [SList [SStr (dotted (fst pst)); SStr (fst nm); SList (map (fun r => enc_view (view_of_fres r)) l)]]
                                           end) (members (snd pst))) t)
  end.

Definition enc_load (top : string) (r : outcome loaded) : sexp :=
  match r with
  | Done l => SList [SStr "ok"; enc_table_view (table_view (l_table l) top);
                     SList (map (fun rq => SList [SStr (dotted (fst rq)); SStr (dotted (snd rq))]) (l_pending l));
                     of_bool (l_unsup l);
                     SList (map (fun d => SList [SStr (dotted (fst d)); SStr (snd d)]) (l_dropped l));
                     enc_alts (l_table l) top (l_replaced l) (l_ambig l);
                     SList (map (fun rq => SList [SStr (dotted (fst rq)); SStr (dotted (snd rq))]) (l_xpending l));
                     SList (map (fun h => SList [SStr (dotted (fst h)); SStr (snd h)]) (l_stale l))]
  | Crash e => SList [SStr "crash"; SStr e]
  | OutOfFuel => SList [SStr "out-of-fuel"]
  end.

Definition enc_py (r : pyres pytable) : sexp :=
  match r with
  | POk t => SList [SStr "ok";
                    SList (map (fun pm => SList [SStr (dotted (fst pm));
                                                 of_opt (fun l => SList (map SStr l)) (pall (snd pm));
                                                 enc_names (map (fun nv => (fst nv, view_of_value (snd nv))) (pns (snd pm)))]) t)]
  | PErr e => SList [SStr "err"; SStr e]
  end.

Definition run_C05 (s : sexp) : sexp :=
  match s with
  | SList [SStr "load"; SStr top; ms] =>
      match as_list_of dec_module ms with
      | Some ms' => enc_load top (griffe_load top ms')
      | None => bad_input
      end
  | SList [SStr "sched"; SStr top; ms; order] =>
      match as_list_of dec_module ms, as_list_of dec_path order with
      | Some ms', Some o => SList [SStr "ok"; enc_table_view (table_view (griffe_sched top ms' o) top)]
      | _, _ => bad_input
      end
  | SList [SStr "spec"; ms; order] =>
      match as_list_of dec_module ms, as_list_of dec_path order with
      | Some ms', Some o => enc_py (py_import ms' o [])
      | _, _ => bad_input
      end
  | _ => bad_input
  end.
