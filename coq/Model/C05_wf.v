(* C05: the decidable side conditions of the composition theorem (Proofs/C05_compose.v), as executable predicates, so that
   the harness can evaluate them on every generated package; plus the dispatcher that adds the "wf" request to run_C05.
   Executable definitions only. *)
From Coq Require Import List ZArith String Ascii Bool Arith.
From Verif Require Import Lib.Sexp Model.C05_imports.
Import ListNotations.
Open Scope string_scope.
Open Scope list_scope.
Open Scope nat_scope.

(* ------------------------------------------------------------------------------------------------------------ *)
(* names                                                                                                         *)
(* ------------------------------------------------------------------------------------------------------------ *)
Fixpoint ends_star (s : string) : bool :=
  match s with
  | EmptyString => false
  | String c EmptyString => Ascii.eqb c "*"%char
  | String _ r => ends_star r
  end.
(* an identifier a statement may bind or list: not a dunder name, not the name of a wildcard pseudo-member *)
Definition plain (n : string) : bool := negb (is_dunder n) && negb (ends_star n).

Definition stmt_line (s : stmt) : nat :=
  match s with
  | SDef ln _ _ | SFrom ln _ _ _ _ | SStar ln _ | SImport ln _ _ | SSetAll ln _ | SAddAll ln _ | SExtAll ln _ => ln
  end.

Fixpoint lines_increase (body : list stmt) : bool :=
  match body with
  | s1 :: ((s2 :: _) as r) => Nat.ltb (stmt_line s1) (stmt_line s2) && lines_increase r
  | _ => true
  end.

Definition bound_name (s : stmt) : option string :=
  match s with
  | SDef _ n _ => Some n
  | SFrom _ _ x asn _ => Some (match asn with Some a => a | None => x end)
  | SImport _ T asn => Some (match asn with Some a => a | None => hd "" T end)
  | _ => None
  end.

(* ------------------------------------------------------------------------------------------------------------ *)
(* sources of an assembled __all__: the local name is bound by exactly one statement of the body, an import standing before
   the __all__ statement, of the form the reference needs (a module for `x.__all__`; a from-import for the bare name: of the list
   itself, `from m import __all__ as x`, or of a name another module bound to the list)                                    *)
(* ------------------------------------------------------------------------------------------------------------ *)
Definition binder_form (a : bool) (s : stmt) : bool :=
  match s with
  | SImport _ _ _ => a
  | SFrom _ _ x _ _ => if a then negb (String.eqb x "__all__") else true
  | _ => false
  end.

(* pre_rev: the statements before the __all__ statement, nearest first.  A wildcard import between the import of the name and the
   __all__ statement is judged on CPython's run (sources_not_rebound below): it must not expose the name. *)
Fixpoint ref_scan (l : string) (a : bool) (pre_rev : list stmt) : bool :=
  match pre_rev with
  | [] => false
  | s :: r => if may_bind l s then binder_form a s && negb (existsb (may_bind l) r) else ref_scan l a r
  end.

(* the targets of the wildcard imports that stand between the import of l and the __all__ statement *)
Fixpoint stars_before (l : string) (pre_rev : list stmt) : list path :=
  match pre_rev with
  | [] => []
  | s :: r => if may_bind l s then []
              else match s with SStar _ T => T :: stars_before l r | _ => stars_before l r end
  end.

Definition items_of (s : stmt) : list item :=
  match s with SSetAll _ its | SAddAll _ its | SExtAll _ its => its | _ => [] end.

Fixpoint refs_ok_from (cs : list string) (pre_rev rest : list stmt) : bool :=
  match rest with
  | [] => true
  | s :: r =>
      forallb (fun it => match it with
                         | IStr x => plain x
                         | IRef l a => plain l && negb (mem_str l cs) && ref_scan l a pre_rev && negb (existsb (may_bind l) r)
                         end) (items_of s)
      && refs_ok_from cs (s :: pre_rev) r
  end.

(* ------------------------------------------------------------------------------------------------------------ *)
(* one module                                                                                                    *)
(* ------------------------------------------------------------------------------------------------------------ *)
Definition stmt_ok (mp : path) (is_init : bool) (cs : list string) (s : stmt) : bool :=
  match s with
  | SDef _ n _ => plain n && negb (mem_str n cs)
  | SFrom _ T x asn bare =>
      let an := match asn with Some a => a | None => x end in
      plain an
      && (if mem_str an cs then path_eqb (T ++ [x]) (mp ++ [an]) else true)     (* a submodule name is bound only to that submodule *)
      && (if path_eqb T mp then mem_str x cs else true)                         (* a module reads itself only for its submodules *)
      && (if bare && is_init then path_eqb T mp else true)
  | SStar _ _ => true
  | SImport _ T asn => let b := match asn with Some a => a | None => hd "" T end in plain b && negb (mem_str b cs)
  | SSetAll _ _ | SAddAll _ _ | SExtAll _ _ => true
  end.

Definition star_targets (body : list stmt) : list path :=
  flat_map (fun s => match s with SStar _ T => [T] | _ => [] end) body.

Definition wf_body (mp : path) (is_init : bool) (cs : list string) (body : list stmt) : bool :=
  lines_increase body                                                            (* finding F4 *)
  && forallb (stmt_ok mp is_init cs) body
  && forallb plain cs
  && refs_ok_from cs [] body
  && (let Ts := star_targets body in
      forallb (fun T1 => forallb (fun T2 => implb (String.eqb (star_name T1) (star_name T2)) (path_eqb T1 T2)) Ts) Ts).

(* ------------------------------------------------------------------------------------------------------------ *)
(* the module tree and the program                                                                               *)
(* ------------------------------------------------------------------------------------------------------------ *)
Fixpoint reach_from (ms : list modsrc) (cur : path) (rest : path) : bool :=
  match rest with
  | [] => true
  | c :: r => mem_str c (children_of ms cur) && reach_from ms (cur ++ [c]) r
  end.
(* q is reached from the top package through declared submodules *)
Definition reachb (top : string) (ms : list modsrc) (q : path) : bool :=
  match q with h :: rest => String.eqb h top && reach_from ms [top] rest | [] => false end.

Fixpoint nodup_paths (l : list path) : bool :=
  match l with [] => true | p :: r => negb (mem_path p r) && nodup_paths r end.

Definition src_of (ms : list modsrc) (q : path) : option modsrc := find (fun m => path_eqb (ms_path m) q) ms.

Definition wf_prog (top : string) (ms : list modsrc) (order : list path) : bool :=
  nodup_paths order
  && forallb (fun q => reachb top ms q
                       && match src_of ms q with
                          | Some m => wf_body q (ms_init m) (ms_children m) (ms_body m)
                          | None => false
                          end) order.

(* ------------------------------------------------------------------------------------------------------------ *)
(* conditions on CPython's run                                                                                   *)
(* ------------------------------------------------------------------------------------------------------------ *)
Definition value_eqb (a b : value) : bool :=
  match a, b with
  | VObj k p, VObj k' p' => okind_eqb k k' && path_eqb p p'
  | VMod p, VMod p' => path_eqb p p'
  | VAll p, VAll p' => path_eqb p p'
  | _, _ => false
  end.

(* a wildcard import never rebinds the name of a submodule of the importing package to anything but that submodule *)
Definition stars_keep_children (ms : list modsrc) (pt : pytable) : bool :=
  forallb (fun ppm =>
             let mp := fst ppm in
             let cs := children_of ms mp in
             forallb (fun T => match get_py pt T with
                               | Some tm => forallb (fun c => if mem_str c (py_star_names tm)
                                                              then match py_attr ms pt T c with
                                                                   | POk v => value_eqb v (VMod (mp ++ [c]))
                                                                   | PErr _ => false
                                                                   end
                                                              else true) cs
                               | None => true
                               end) (star_targets (body_of ms mp))) pt.

(* finding F5: a package without __all__ whose namespace binds one of its public submodules names it in an import statement
   that the visitor records *)
Definition init_of (ms : list modsrc) (q : path) : bool :=
  match src_of ms q with Some m => ms_init m | None => false end.
Definition submodules_recorded (ms : list modsrc) (pt : pytable) : bool :=
  forallb (fun ppm =>
             let T := fst ppm in let tm := snd ppm in
             match pall tm with
             | Some _ => true
             | None => forallb (fun c => starts_underscore c
                                         || match lookup c (pns tm) with
                                            | Some _ => mem_str c (imports (visit_body T (init_of ms T) (body_of ms T)))
                                            | None => true
                                            end) (children_of ms T)
             end) pt.

(* finding F12 (the part that depends on the run): no wildcard import standing between the import of a source of an assembled __all__
   and the __all__ statement exposes the name of the source *)
Fixpoint refs_run_from (pt : pytable) (pre_rev rest : list stmt) : bool :=
  match rest with
  | [] => true
  | s :: r =>
      forallb (fun it => match it with
                         | IStr _ => true
                         | IRef l _ => forallb (fun T => match get_py pt T with
                                                         | Some tm => negb (mem_str l (py_star_names tm))
                                                         | None => true
                                                         end) (stars_before l pre_rev)
                         end) (items_of s)
      && refs_run_from pt (s :: pre_rev) r
  end.
Definition sources_not_rebound (ms : list modsrc) (pt : pytable) : bool :=
  forallb (fun ppm => refs_run_from pt [] (body_of ms (fst ppm))) pt.

Definition wf_run (ms : list modsrc) (pt : pytable) : bool :=
  stars_keep_children ms pt && submodules_recorded ms pt && sources_not_rebound ms pt.

(* ------------------------------------------------------------------------------------------------------------ *)
(* the side condition of the real-traversal theorem (Proofs/C05_realw.v), and table equality                      *)
(* ------------------------------------------------------------------------------------------------------------ *)
(* every wildcard import of the module names a module of the table *)
Definition stars_resolveb (t : table) (top : string) (ms : list (string * member)) : bool :=
  forallb (fun nm => match snd nm with
                     | MAlias tgt _ true => match lookup_path t top tgt with
                                            | LMod q => match get_mod t q with Some _ => true | None => false end
                                            | _ => false
                                            end
                     | _ => true
                     end) ms.

Fixpoint ok_runb (fl : nat) (top : string) (order : list path) (t : table) : bool :=
  match order with
  | [] => true
  | m :: r => match get_mod t m with Some st => stars_resolveb t top (members st) | None => true end
              && ok_runb fl top r (sched_wild_step fl top t m)
  end.

Fixpoint list_eqb {A} (eqb : A -> A -> bool) (a b : list A) : bool :=
  match a, b with
  | [], [] => true
  | x :: a', y :: b' => eqb x y && list_eqb eqb a' b'
  | _, _ => false
  end.
Definition item_struct_eqb (a b : item) : bool :=
  match a, b with
  | IStr x, IStr y => String.eqb x y
  | IRef l1 a1, IRef l2 a2 => String.eqb l1 l2 && Bool.eqb a1 a2
  | _, _ => false
  end.
Definition modst_eqb (a b : modst) : bool :=
  list_eqb (fun x y => String.eqb (fst x) (fst y) && member_eqb (snd x) (snd y)) (members a) (members b)
  && list_eqb String.eqb (imports a) (imports b)
  && match exports a, exports b with
     | None, None => true
     | Some x, Some y => list_eqb item_struct_eqb x y
     | _, _ => false
     end.
Definition table_eqb (a b : table) : bool :=
  list_eqb (fun x y => path_eqb (fst x) (fst y) && modst_eqb (snd x) (snd y)) a b.

(* no __all__ statement of the program refers to another list: every item is a string *)
Definition strings_only (its : list item) : bool := forallb (fun it => match it with IStr _ => true | IRef _ _ => false end) its.
Definition no_refsb (ms : list modsrc) : bool := forallb (fun m => forallb (fun s => strings_only (items_of s)) (ms_body m)) ms.

(* the order in which the wildcard phase of griffe_load completes the modules *)
Definition load_wild_order (top : string) (ms : list modsrc) : list path :=
  match expx (total_fuel ms) top [top] (mkX (initial_table ms) [] false [] [] [] []) with
  | Done x => match expw (total_fuel ms) top [top] (mkW (xt x) [] [] [] (xunsup x) [] []) with
              | Done w => rev (wdone w)
              | _ => []
              end
  | _ => []
  end.

(* ------------------------------------------------------------------------------------------------------------ *)
(* dispatcher                                                                                                    *)
(* ------------------------------------------------------------------------------------------------------------ *)
Definition run_C05w (s : sexp) : sexp :=
  match s with
  | SList [SStr "wf"; SStr top; ms; order] =>
      match as_list_of dec_module ms, as_list_of dec_path order with
      | Some ms', Some o =>
          let st := wf_prog top ms' o in
          match py_import ms' o [] with
          | POk pt => SList [SStr "ok"; of_bool st; of_bool (wf_run ms' pt); of_bool (agreeb top (griffe_sched top ms' o) pt);
                             of_bool (stars_keep_children ms' pt); of_bool (submodules_recorded ms' pt); of_bool (sources_not_rebound ms' pt)]
          | PErr e => SList [SStr "err"; of_bool st; SStr e]
          end
      | _, _ => bad_input
      end
  | SList [SStr "phases"; SStr top; ms] =>
      (* griffe_load's two phases against the schedule steps along their completion orders (C05_load_phases_explicit) *)
      match as_list_of dec_module ms with
      | Some ms' =>
          let t0 := initial_table ms' in
          let fl := S (List.length ms' * 8 + 64) in
          match expx (total_fuel ms') top [top] (mkX t0 [] false [] [] [] []) with
          | Done x =>
              match expw (total_fuel ms') top [top] (mkW (xt x) [] [] [] (xunsup x) [] []) with
              | Done w =>
                  let ox := rev (xdone x) in
                  let ow := rev (wdone w) in
                  let tx := fold_left (sched_exports_step fl top) ox t0 in
                  (* the hypotheses and the conclusion of C05_real_traversal_agrees (Proofs/C05_norefs.v) *)
                  let rt := match py_import ms' ow [] with
                            | POk pt => [of_bool (no_refsb ms'); of_bool (wf_prog top ms' ow); of_bool true; of_bool (wf_run ms' pt);
                                         of_bool (agreeb top (wt w) pt)]
                            | PErr _ => [of_bool (no_refsb ms'); of_bool (wf_prog top ms' ow); of_bool false; of_bool false; of_bool false]
                            end in
                  SList [SStr "ok"; of_bool (table_eqb (xt x) tx); of_bool (ok_runb fl top ow tx);
                         of_bool (table_eqb (wt w) (fold_left (sched_wild_step fl top) ow tx));
                         enc_paths ox; enc_paths ow; SList rt]
              | _ => SList [SStr "no-result"]
              end
          | _ => SList [SStr "no-result"]
          end
      | None => bad_input
      end
  | _ => run_C05 s
  end.
