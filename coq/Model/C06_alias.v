(* C06 model: alias dereferencing and resolution in src/_griffe/models.py (Alias.target, final_target, resolve_target,
   _resolve_target, members, _update_target_aliases), src/_griffe/mixins.py (GetMembersMixin.get_member walking
   through alias members) and src/_griffe/loader.py (resolve_module_aliases, the resolve_aliases loop).
   Executable definitions only.

   A heap is a list of nodes addressed by position.  A node is a real object (module / class / function / attribute,
   with its declared members) or a real alias (a member of some object, or a detached alias that is still the target of
   another one).  The aliases that [Alias.members] manufactures on the fly ("virtual" aliases: resolved by
   construction onto a member of a real object, parent = the alias that was walked through) are not heap nodes: they
   only occur as references [RVirt path member].

   Python exceptions are explicit: KeyError, AliasResolutionError (with the path of the alias it names) and
   CyclicAliasError.  [EFuel] (a recursion / loop bound of the model was hit) and [EBad] (ill-formed heap: dangling
   index, a collection entry that is not an object ...) have no counterpart in the code; Proofs/C06_alias.v shows that
   they do not occur on well-formed heaps with the fuel computed by [fuelN]/[fuelL]. *)
From Coq Require Import List String Bool Arith.
From Verif Require Import Lib.Sexp.
Import ListNotations.
Open Scope string_scope.
Open Scope list_scope.
Open Scope nat_scope.

Inductive ref := RReal (i : nat) | RVirt (p : string) (i : nat).

Inductive node :=
| NObj (path : string) (container : bool) (members : list (string * nat))
| NAlias (path : string) (tparts : list string) (target : option ref) (passed : bool) (wild : bool).

Definition heap := list node.

Inductive err := EKey | EARE (alias_path : string) | ECyc | EFuel | EBad.
Inductive res (A : Type) := Ok (a : A) | Err (e : err).
Arguments Ok {A} a. Arguments Err {A} e.

Definition node_path (n : node) : string :=
  match n with NObj p _ _ => p | NAlias p _ _ _ _ => p end.

Definition is_alias_node (n : node) : bool := match n with NAlias _ _ _ _ _ => true | _ => false end.

Definition count_aliases (h : heap) : nat := List.length (filter is_alias_node h).

Fixpoint lookup {A} (k : string) (l : list (string * A)) : option A :=
  match l with
  | [] => None
  | (k', v) :: r => if String.eqb k k' then Some v else lookup k r
  end.

Fixpoint mem_str (s : string) (l : list string) : bool :=
  match l with [] => false | x :: r => if String.eqb s x then true else mem_str s r end.

Fixpoint update {A} (l : list A) (i : nat) (x : A) : list A :=
  match l, i with
  | [], _ => []
  | _ :: r, 0 => x :: r
  | y :: r, S i' => y :: update r i' x
  end.

Definition set_passed (h : heap) (i : nat) (b : bool) : heap :=
  match nth_error h i with
  | Some (NAlias p tp t _ w) => update h i (NAlias p tp t b w)
  | _ => h
  end.

Definition set_target (h : heap) (i : nat) (r : ref) : heap :=
  match nth_error h i with
  | Some (NAlias p tp _ b w) => update h i (NAlias p tp (Some r) b w)
  | _ => h
  end.

Definition ref_eqb (a b : ref) : bool :=
  match a, b with
  | RReal i, RReal j => Nat.eqb i j
  | RVirt p i, RVirt q j => String.eqb p q && Nat.eqb i j
  | _, _ => false
  end.

(* [x.is_alias] of whatever a reference denotes; None = dangling index *)
Definition ref_is_alias (h : heap) (r : ref) : option bool :=
  match r with
  | RVirt _ _ => Some true
  | RReal i => match nth_error h i with Some n => Some (is_alias_node n) | None => None end
  end.

Definition ref_path (h : heap) (r : ref) : string :=
  match r with
  | RVirt p _ => p
  | RReal i => match nth_error h i with Some n => node_path n | None => "" end
  end.

Section Deref.
  (* modules collection: top-level module name -> node *)
  Variable coll : list (string * nat).
  (* bound of the while loop of final_target *)
  Variable L : nat.
  (* Alias.resolve_target on a real alias (the recursion through it is closed below, by [resolve_target]) *)
  Variable rt : heap -> nat -> heap * res unit.

  (* Alias.target: `if not self.resolved: self.resolve_target()` then `return self._target` *)
  Definition target_of (h : heap) (r : ref) : heap * res ref :=
    match r with
    | RVirt _ i => (h, Ok (RReal i))
    | RReal i =>
        match nth_error h i with
        | Some (NAlias _ _ (Some t) _ _) => (h, Ok t)
        | Some (NAlias _ _ None _ _) =>
            let '(h', r') := rt h i in
            match r' with
            | Err e => (h', Err e)
            | Ok _ => match nth_error h' i with
                      | Some (NAlias _ _ (Some t) _ _) => (h', Ok t)
                      | _ => (h', Err EBad)
                      end
            end
        | _ => (h, Err EBad)
        end
    end.

  (* Alias.final_target: `while target.is_alias: if target.path in paths_seen: raise Cyclic...; target = target.target` *)
  Fixpoint final_target (l : nat) (h : heap) (r : ref) (seen : list string) : heap * res nat :=
    match l with
    | 0 => (h, Err EFuel)
    | S l' =>
        match ref_is_alias h r with
        | None => (h, Err EBad)
        | Some false => match r with RReal i => (h, Ok i) | RVirt _ _ => (h, Err EBad) end
        | Some true =>
            let p := ref_path h r in
            if mem_str p seen then (h, Err ECyc)
            else let '(h', t) := target_of h r in
                 match t with
                 | Err e => (h', Err e)
                 | Ok r' => final_target l' h' r' (p :: seen)
                 end
        end
    end.

  (* Alias.members builds `Alias(name, target=member, parent=self)` for every member of the final target; the
     constructor runs `_update_target_aliases`: `self._target.aliases[...] = self` under
     suppress(AttributeError, AliasResolutionError, CyclicAliasError).  For a member that is itself an alias,
     `.aliases` is `final_target.aliases`: the member gets dereferenced (and resolved if it can be). *)
  Fixpoint touch_members (h : heap) (ms : list (string * nat)) : heap * res unit :=
    match ms with
    | [] => (h, Ok tt)
    | (_, i) :: rest =>
        match nth_error h i with
        | None => (h, Err EBad)
        | Some (NObj _ _ _) => touch_members h rest
        | Some (NAlias _ _ _ _ _) =>
            let '(h', r) := final_target L h (RReal i) [] in
            match r with
            | Ok _ | Err (EARE _) | Err ECyc => touch_members h' rest
            | Err e => (h', Err e)
            end
        end
    end.

  (* GetMembersMixin.get_member(parts) started on [cur]: an object looks the name up in its declared members; an alias
     computes its `members` (final_target, then one fresh alias per member) and looks the name up there. *)
  Fixpoint get_from (h : heap) (cur : ref) (parts : list string) : heap * res ref :=
    match parts with
    | [] => (h, Ok cur)
    | name :: rest =>
        match ref_is_alias h cur with
        | None => (h, Err EBad)
        | Some false =>
            match cur with
            | RReal i =>
                match nth_error h i with
                | Some (NObj _ _ ms) =>
                    match lookup name ms with
                    | None => (h, Err EKey)
                    | Some j => get_from h (RReal j) rest
                    end
                | _ => (h, Err EBad)
                end
            | RVirt _ _ => (h, Err EBad)
            end
        | Some true =>
            let '(h1, ft) := final_target L h cur [] in
            match ft with
            | Err e => (h1, Err e)
            | Ok o =>
                match nth_error h1 o with
                | Some (NObj _ _ ms) =>
                    let '(h2, u) := touch_members h1 ms in
                    match u with
                    | Err e => (h2, Err e)
                    | Ok _ =>
                        match lookup name ms with
                        | None => (h2, Err EKey)
                        | Some j => get_from h2 (RVirt (String.append (ref_path h cur) (String.append "." name)) j) rest
                        end
                    end
                | _ => (h1, Err EBad)
                end
            end
        end
    end.

  (* ModulesCollection.get_member(path) *)
  Definition get_member (h : heap) (parts : list string) : heap * res ref :=
    match parts with
    | [] => (h, Err EBad)
    | top :: rest =>
        match lookup top coll with
        | None => (h, Err EKey)
        | Some m => get_from h (RReal m) rest
        end
    end.

  (* Alias._resolve_target of the real alias [i] (path [p], target path [tp]) *)
  Definition resolve_inner (h : heap) (i : nat) (p : string) (tp : list string) : heap * res unit :=
    let '(h1, g) := get_member h tp in
    match g with
    | Err EKey => (h1, Err (EARE p))
    | Err e => (h1, Err e)
    | Ok r =>
        if ref_eqb r (RReal i) then (h1, Err ECyc)
        else
          let '(h2, u) :=
            match r with
            | RReal j => match nth_error h1 j with
                         | Some (NAlias _ _ None _ _) => rt h1 j
                         | _ => (h1, Ok tt)
                         end
            | RVirt _ _ => (h1, Ok tt)
            end in
          match u with
          | Err e => (h2, Err e)
          | Ok _ =>
              (* `target_aliases = resolved.aliases` comes first: an alias target is dereferenced down to its final
                 target, and only then is the link stored (`self._target = resolved`) *)
              match ref_is_alias h2 r with
              | None => (h2, Err EBad)
              | Some false => (set_target h2 i r, Ok tt)
              | Some true =>
                  let '(h4, f) := final_target L h2 r [] in
                  match f with Err e => (h4, Err e) | Ok _ => (set_target h4 i r, Ok tt) end
              end
          end
    end.

  (* Alias.resolve_target: the passed-through flag is set around _resolve_target and reset in `finally` *)
  Definition resolve_body (h : heap) (i : nat) : heap * res unit :=
    match nth_error h i with
    | Some (NAlias p tp _ passed _) =>
        if passed then (h, Err ECyc)
        else let '(h1, r) := resolve_inner (set_passed h i true) i p tp in
             (set_passed h1 i false, r)
    | _ => (h, Err EBad)
    end.
End Deref.

(* closing the recursion: [n] bounds the nesting depth of resolve_target calls (the Python call stack) *)
Fixpoint resolve_target (coll : list (string * nat)) (L n : nat) (h : heap) (i : nat) : heap * res unit :=
  match n with
  | 0 => (h, Err EFuel)
  | S n' => resolve_body coll L (resolve_target coll L n') h i
  end.

Definition fuelN (h : heap) : nat := S (count_aliases h).
Definition fuelL (h : heap) : nat := 2 * count_aliases h + 3.

(* the entry points with the fuel every caller uses *)
Definition resolve_top (coll : list (string * nat)) (h : heap) (i : nat) : heap * res unit :=
  resolve_target coll (fuelL h) (fuelN h) h i.

Definition deref_top (coll : list (string * nat)) (h : heap) (i : nat) : heap * res nat :=
  final_target (resolve_target coll (fuelL h) (fuelN h)) (fuelL h) h (RReal i) [].

(* ---- loader.py: resolve_module_aliases (implicit=True, external=False) ---- *)
Record acc := mkAcc { a_heap : heap; a_seen : list string; a_resolved : list string; a_unresolved : list string }.

Section Loader.
  Variable coll : list (string * nat).

  (* one member of the `for member in obj.members.values()` loop that is an alias *)
  Definition visit_alias (a : acc) (m : nat) (p : string) : acc * res unit :=
    let h := a_heap a in
    let '(h1, r) := resolve_top coll h m in
    match r with
    | Err (EARE _) => (mkAcc h1 (a_seen a) (a_resolved a) (p :: a_unresolved a), Ok tt)
    | Err ECyc => (mkAcc h1 (a_seen a) (a_resolved a) (a_unresolved a), Ok tt)
    | Err e => (mkAcc h1 (a_seen a) (a_resolved a) (a_unresolved a), Err e)
    | Ok _ =>
        (* the `else:` branch evaluates member.final_target.path for its debug message *)
        let '(h2, f) := deref_top coll h1 m in
        match f with
        | Err e => (mkAcc h2 (a_seen a) (a_resolved a) (a_unresolved a), Err e)
        | Ok _ => (mkAcc h2 (a_seen a) (p :: a_resolved a) (a_unresolved a), Ok tt)
        end
    end.

  (* the `for member in obj.members.values()` loop; [recur] is the recursive call on a module / class member *)
  Fixpoint members_loop (recur : acc -> nat -> acc * res unit) (a : acc) (ms : list (string * nat)) : acc * res unit :=
    match ms with
    | [] => (a, Ok tt)
    | (_, m) :: rest =>
        match nth_error (a_heap a) m with
        | None => (a, Err EBad)
        | Some (NAlias p _ tgt _ wild) =>
            if wild || (match tgt with Some _ => true | None => false end) then members_loop recur a rest
            else let '(a', r) := visit_alias a m p in
                 match r with Err e => (a', Err e) | Ok _ => members_loop recur a' rest end
        | Some (NObj mp container _) =>
            if container && negb (mem_str mp (a_seen a)) then
              let '(a', r) := recur a m in
              match r with Err e => (a', Err e) | Ok _ => members_loop recur a' rest end
            else members_loop recur a rest
        end
    end.

  (* resolve_module_aliases; [d] bounds the depth of the object tree *)
  Fixpoint rma (d : nat) (a : acc) (o : nat) : acc * res unit :=
    match d with
    | 0 => (a, Err EFuel)
    | S d' =>
        match nth_error (a_heap a) o with
        | Some (NObj path _ ms) =>
            members_loop (rma d') (mkAcc (a_heap a) (path :: a_seen a) (a_resolved a) (a_unresolved a)) ms
        | _ => (a, Err EBad)
        end
    end.

  (* one iteration of the while loop: every module of the collection, each with a fresh `seen`;
     `resolved |= next_resolved; unresolved |= next_unresolved` *)
  Fixpoint pass_modules (h : heap) (mods : list (string * nat)) (unres rsv : list string)
    : heap * res (list string * list string) :=
    match mods with
    | [] => (h, Ok (unres, rsv))
    | (_, m) :: rest =>
        let '(a, r) := rma (S (List.length h)) (mkAcc h [] rsv unres) m in
        match r with
        | Err e => (a_heap a, Err e)
        | Ok _ => pass_modules (a_heap a) rest (a_unresolved a) (a_resolved a)
        end
    end.

  Definition one_pass (h : heap) : heap * res (list string * list string) := pass_modules h coll [] [].

  Definition incl_str (a b : list string) : bool := forallb (fun x => mem_str x b) a.
  Definition set_eq (a b : list string) : bool := incl_str a b && incl_str b a.
  Definition is_nil {A} (l : list A) : bool := match l with [] => true | _ => false end.

  (* `while unresolved and (progress or unresolved != prev_unresolved)` with
     `progress = bool(resolved) or len(collection) != loaded_modules` (the collection cannot grow with external=False) *)
  Fixpoint ra_loop (k : nat) (h : heap) (prev : list string) (it : nat) : heap * res (list string * nat) :=
    match k with
    | 0 => (h, Err EFuel)
    | S k' =>
        let '(h', r) := one_pass h in
        match r with
        | Err e => (h', Err e)
        | Ok (unres, resolved) =>
            match unres with
            | [] => (h', Ok (unres, S it))
            | _ => if is_nil resolved && set_eq unres prev then (h', Ok (unres, S it)) else ra_loop k' h' unres (S it)
            end
        end
    end.

  Definition resolve_aliases (h : heap) : heap * res (list string * nat) :=
    ra_loop (count_aliases h + 2) h [] 0.
End Loader.

(* ---- decidable predicates on heaps (hypotheses of the theorems, known-gap classifiers) ---- *)

(* every index stored in the heap or the collection is in range; collection entries are objects *)
Definition ref_ok (h : heap) (r : ref) : bool :=
  match r with
  | RReal i => i <? List.length h
  | RVirt _ i => i <? List.length h
  end.
Definition node_ok (h : heap) (n : node) : bool :=
  match n with
  | NObj _ _ ms => forallb (fun kv => snd kv <? List.length h) ms
  | NAlias _ tp t _ _ =>
      (match tp with [] => false | _ => true end) && (match t with Some r => ref_ok h r | None => true end)
  end.
Definition coll_ok (h : heap) (coll : list (string * nat)) : bool :=
  forallb (fun kv => match nth_error h (snd kv) with Some (NObj _ _ _) => true | _ => false end) coll.
Definition no_passed (h : heap) : bool :=
  forallb (fun n => match n with NAlias _ _ _ p _ => negb p | _ => true end) h.
Definition wf (coll : list (string * nat)) (h : heap) : bool :=
  forallb (node_ok h) h && coll_ok h coll.

(* the walk of get_member restricted to real objects: Some (Some j) found, Some None KeyError,
   None = the path runs through (or ends after) an alias member, where the real code dereferences *)
Fixpoint static_from (h : heap) (i : nat) (parts : list string) : option (option nat) :=
  match parts with
  | [] => Some (Some i)
  | name :: rest =>
      match nth_error h i with
      | Some (NObj _ _ ms) =>
          match lookup name ms with
          | None => Some None
          | Some j => static_from h j rest
          end
      | _ => None
      end
  end.
Definition static_get (coll : list (string * nat)) (h : heap) (parts : list string) : option (option nat) :=
  match parts with
  | [] => None
  | top :: rest => match lookup top coll with None => Some None | Some m => static_from h m rest end
  end.

(* KnownGap_passthrough is the negation: some alias' target path runs through an alias member,
   or some stored link is a virtual alias (which only such a walk creates) *)
Definition direct (coll : list (string * nat)) (h : heap) : bool :=
  forallb (fun n => match n with
                    | NAlias _ tp t _ _ =>
                        (match static_get coll h tp with Some _ => true | None => false end)
                        && (match t with Some (RVirt _ _) => false | _ => true end)
                    | _ => true end) h.

(* pure chain walk: final_target restricted to stored links (None: an unresolved link, a repeated path, or out of fuel) *)
Fixpoint chain_end (l : nat) (h : heap) (r : ref) (seen : list string) : option nat :=
  match l with
  | 0 => None
  | S l' =>
      match r with
      | RVirt p i => if mem_str p seen then None else chain_end l' h (RReal i) (p :: seen)
      | RReal i =>
          match nth_error h i with
          | Some (NObj _ _ _) => Some i
          | Some (NAlias p _ (Some t) _ _) => if mem_str p seen then None else chain_end l' h t (p :: seen)
          | _ => None
          end
      end
  end.

Definition complete_at (L : nat) (h : heap) (n : node) : bool :=
  match n with
  | NAlias p _ (Some t) _ _ => match chain_end L h t [p] with Some _ => true | None => false end
  | _ => true
  end.

(* KnownGap_preresolved is the negation: some alias is resolved (first link stored) although dereferencing it through
   stored links does not reach an object *)
Definition chains_complete_L (L : nat) (h : heap) : bool := forallb (complete_at L h) h.
Definition chains_complete (h : heap) : bool := chains_complete_L (fuelL h) h.

(* every stored link leads, through stored links, to an object (the alias' own path is not in the seen-set here) *)
Definition target_complete_at (L : nat) (h : heap) (n : node) : bool :=
  match n with
  | NAlias _ _ (Some t) _ _ => match chain_end L h t [] with Some _ => true | None => false end
  | _ => true
  end.
Definition targets_complete (h : heap) : bool := forallb (target_complete_at (fuelL h) h) h.

Definition alias_paths (h : heap) : list string :=
  map node_path (filter is_alias_node h).
Fixpoint nodup_str (l : list string) : bool :=
  match l with [] => true | x :: r => negb (mem_str x r) && nodup_str r end.
Definition unique_paths (h : heap) : bool := nodup_str (alias_paths h).

(* ---- the static walk: what resolve_target computes on a direct heap, as a pure function of target paths, flags and
   which aliases are resolved (Proofs/C06_fixpoint.v: equal to the outcome of resolve_target, and stable under further
   resolutions).  [vis]: the aliases this walk already went through (the real code marks them passed-through). ---- *)
Fixpoint mem_nat (x : nat) (l : list nat) : bool :=
  match l with [] => false | y :: r => Nat.eqb x y || mem_nat x r end.

Fixpoint walk (coll : list (string * nat)) (n : nat) (h : heap) (i : nat) (vis : list nat) : res unit :=
  match n with
  | 0 => Err EFuel
  | S n' =>
      match nth_error h i with
      | Some (NAlias p tp None pa _) =>
          if pa || mem_nat i vis then Err ECyc
          else match static_get coll h tp with
               | None => Err EBad
               | Some None => Err (EARE p)
               | Some (Some j) =>
                   if Nat.eqb j i then Err ECyc
                   else match nth_error h j with
                        | None => Err EBad
                        | Some (NAlias _ _ None _ _) => walk coll n' h j (i :: vis)
                        | Some _ => Ok tt
                        end
               end
      | _ => Err EBad
      end
  end.

(* ---- resolve_aliases(implicit=False): resolve_module_aliases skips the aliases that are not exported; for the loop
   that is the bit it already has for wildcard pseudo-members.  [mark_skip ids h] raises it on the listed nodes. ---- *)
Definition skip_node (n : node) : node :=
  match n with NAlias p tp t pa _ => NAlias p tp t pa true | _ => n end.
Fixpoint mark_from (ids : list nat) (k : nat) (h : heap) : heap :=
  match h with
  | [] => []
  | n :: r => (if mem_nat k ids then skip_node n else n) :: mark_from ids (S k) r
  end.
Definition mark_skip (ids : list nat) (h : heap) : heap := mark_from ids 0 h.

(* ---- the outer loop of resolve_aliases WITH side-loading, over an abstract world: one pass over the collection
   returns (some alias got resolved, the unresolved set, the collection grew).
   `while unresolved and (progress or unresolved != prev_unresolved)` with
   `progress = bool(resolved) or len(collection) != loaded_modules`. ---- *)
Section ExtLoop.
  Variable W : Type.
  Variable pass : W -> W * (bool * list string * bool).

  Fixpoint ext_loop (k : nat) (w : W) (prev : list string) (it : nat) : option (W * list string * nat) :=
    match k with
    | 0 => None
    | S k' =>
        let '(w', (rs, u, g)) := pass w in
        match u with
        | [] => Some (w', u, S it)
        | _ => if negb (rs || g) && set_eq u prev then Some (w', u, S it) else ext_loop k' w' u (S it)
        end
    end.
End ExtLoop.

(* replay device for the correspondence: the world is the list of pass results still to come *)
Definition pass_list (w : list (bool * list string * bool)) : list (bool * list string * bool) * (bool * list string * bool) :=
  match w with [] => ([], (false, [], false)) | x :: r => (r, x) end.

(* ---- s-expression interface ---- *)
Definition dec_ref (s : sexp) : option (option ref) :=
  match s with
  | SList [] => Some None
  | SList [SStr "real"; i] => do i' <- as_nat i; Some (Some (RReal i'))
  | SList [SStr "virt"; SStr p; i] => do i' <- as_nat i; Some (Some (RVirt p i'))
  | _ => None
  end.
Definition dec_member (s : sexp) : option (string * nat) :=
  match s with SList [SStr n; i] => do i' <- as_nat i; Some (n, i') | _ => None end.
Definition dec_node (s : sexp) : option node :=
  match s with
  | SList [SStr "obj"; SStr p; c; ms] =>
      do c' <- as_bool c; do ms' <- as_list_of dec_member ms; Some (NObj p c' ms')
  | SList [SStr "alias"; SStr p; tp; t; pa; w] =>
      do tp' <- as_list_of as_str tp; do t' <- dec_ref t; do pa' <- as_bool pa; do w' <- as_bool w;
      Some (NAlias p tp' t' pa' w')
  | _ => None
  end.

Definition enc_err (e : err) : sexp :=
  match e with
  | EKey => SList [SStr "key"]
  | EARE p => SList [SStr "are"; SStr p]
  | ECyc => SList [SStr "cyc"]
  | EFuel => SList [SStr "fuel"]
  | EBad => SList [SStr "bad"]
  end.

Definition enc_target (h : heap) (t : option ref) : sexp :=
  match t with
  | None => SList []
  | Some (RReal i) => SList [SStr "real"; SStr (ref_path h (RReal i))]
  | Some (RVirt p i) => SList [SStr "virt"; SStr p; SStr (ref_path h (RReal i))]
  end.

Definition enc_state (h : heap) : sexp :=
  SList (flat_map (fun n => match n with
                            | NAlias p _ t pa _ => [SList [SStr p; enc_target h t; of_bool pa]]
                            | _ => [] end) h).

Fixpoint alias_ids_from (h : heap) (k : nat) : list nat :=
  match h with
  | [] => []
  | n :: r => if is_alias_node n then k :: alias_ids_from r (S k) else alias_ids_from r (S k)
  end.

(* dereference every alias, in heap order *)
Fixpoint deref_all (coll : list (string * nat)) (h : heap) (ids : list nat) : heap * list sexp :=
  match ids with
  | [] => (h, [])
  | i :: rest =>
      let '(h1, r) := deref_top coll h i in
      let out := match r with
                 | Ok o => SList [SStr "ok"; SStr (ref_path h1 (RReal o))]
                 | Err e => enc_err e
                 end in
      let '(h2, outs) := deref_all coll h1 rest in
      (h2, out :: outs)
  end.

(* the same, recording the links after every single dereference (exposes the side effects of one access) *)
Fixpoint deref_trace (coll : list (string * nat)) (h : heap) (ids : list nat) : heap * list sexp :=
  match ids with
  | [] => (h, [])
  | i :: rest =>
      let '(h1, r) := deref_top coll h i in
      let out := match r with
                 | Ok o => SList [SStr "ok"; SStr (ref_path h1 (RReal o))]
                 | Err e => enc_err e
                 end in
      let '(h2, outs) := deref_trace coll h1 rest in
      (h2, SList [out; enc_state h1] :: outs)
  end.

(* ---- why a resolved alias does not dereference (known-gap classifiers, computed on the heap the operations left) ----
   [ident_walk]: the stored chain followed by node identity instead of by path; returns the object reached (None: an
   unresolved link, or a genuine cycle of stored links exhausting the fuel) and the real alias nodes met. *)
Fixpoint ident_walk (l : nat) (h : heap) (r : ref) (met : list nat) : option nat * list nat :=
  match l with
  | 0 => (None, met)
  | S l' =>
      match r with
      | RVirt _ i => ident_walk l' h (RReal i) met
      | RReal i =>
          match nth_error h i with
          | Some (NObj _ _ _) => (Some i, met)
          | Some (NAlias _ _ (Some t) _ _) => ident_walk l' h t (i :: met)
          | _ => (None, i :: met)
          end
      end
  end.

Definition stored_in (h0 : heap) (k : nat) : bool :=
  match nth_error h0 k with Some (NAlias _ _ (Some _) _ _) => true | _ => false end.

(* "unlinked" | "complete" (dereferences through stored links to an object) |
   "false-cycle": every stored link leads, node by node, to an object, yet two distinct aliases of the chain have the
                  same path, which final_target takes for a cycle (KnownGap_duplicate_path, C06-F9) |
   "preresolved": the chain runs through a link that was already stored on [h0], before any resolution
                  (KnownGap_preresolved, C06-F3) |
   "partial": none of these - resolve_target itself left a chain that does not reach an object *)
Definition link_verdict (h0 h : heap) (i : nat) : string :=
  match nth_error h i with
  | Some (NAlias p tp (Some t) pa w) =>
      if complete_at (fuelL h) h (NAlias p tp (Some t) pa w) then "complete"
      else let '(o, met) := ident_walk (2 * List.length h + 2) h (RReal i) [] in
           match o with
           | Some _ => "false-cycle"
           | None => if existsb (stored_in h0) met then "preresolved" else "partial"
           end
  | _ => "unlinked"
  end.

Fixpoint run_ops (coll : list (string * nat)) (h0 h : heap) (ops : list sexp) : list sexp :=
  match ops with
  | [] => []
  | SStr "verdicts" :: rest =>
      SList [SStr "verdicts"; SList (map (fun i => SStr (link_verdict h0 h i)) (alias_ids_from h 0))] :: run_ops coll h0 h rest
  | SStr "resolve" :: rest =>
      let '(h', r) := resolve_aliases coll h in
      match r with
      | Err e => [SList [SStr "raise"; enc_err e]; enc_state h']
      | Ok (u, it) => SList [SStr "resolve"; SList (map SStr u); of_nat it] :: enc_state h' :: run_ops coll h0 h' rest
      end
  | SStr "deref" :: rest =>
      let '(h', outs) := deref_all coll h (alias_ids_from h 0) in
      SList [SStr "deref"; SList outs] :: enc_state h' :: run_ops coll h0 h' rest
  | SStr "deref-trace" :: rest =>
      let '(h', outs) := deref_trace coll h (alias_ids_from h 0) in
      SList [SStr "deref-trace"; SList outs] :: enc_state h' :: run_ops coll h0 h' rest
  | _ => [bad_input]
  end.

(* the static walk of every alias of the heap (resolved ones: "linked") *)
Definition enc_walks (coll : list (string * nat)) (h : heap) : sexp :=
  SList (map (fun i => match nth_error h i with
                       | Some (NAlias _ _ (Some _) _ _) => SList [SStr "linked"]
                       | _ => match walk coll (fuelN h) h i [] with
                              | Ok _ => SList [SStr "ok"]
                              | Err e => enc_err e
                              end
                       end) (alias_ids_from h 0)).

(* aliases on which a failed resolve_target nevertheless stores links of other aliases (C06_failed_resolution_changes_nothing
   excludes this on direct heaps with complete chains and unique paths) *)
Definition count_unres (h : heap) : nat :=
  List.length (filter (fun n => match n with NAlias _ _ None _ _ => true | _ => false end) h).
Definition enc_failed_but_changed (coll : list (string * nat)) (h : heap) : sexp :=
  SList (flat_map (fun i => match nth_error h i with
                            | Some (NAlias p _ None _ _) =>
                                let '(h', r) := resolve_top coll h i in
                                match r with
                                | Err _ => if Nat.eqb (count_unres h') (count_unres h) then [] else [SStr p]
                                | Ok _ => []
                                end
                            | _ => []
                            end) (alias_ids_from h 0)).

Definition dec_pass (s : sexp) : option (bool * list string * bool) :=
  match s with
  | SList [rs; u; g] => do rs' <- as_bool rs; do u' <- as_list_of as_str u; do g' <- as_bool g; Some (rs', u', g')
  | _ => None
  end.

Definition run_C06 (s : sexp) : sexp :=
  match s with
  | SList [SStr "loop"; ps] =>
      match as_list_of dec_pass ps with
      | Some l =>
          match ext_loop _ pass_list (S (List.length l)) l [] 0 with
          | Some (rest, u, it) => SList [SStr "loop"; SList (map SStr u); of_nat it; of_nat (List.length rest)]
          | None => SList [SStr "loop-not-ended"]
          end
      | None => bad_input
      end
  | SList [SStr "run"; c; ns; SList ops; skip] =>
      match as_list_of dec_member c, as_list_of dec_node ns, as_list_of as_nat skip with
      | Some coll, Some h0, Some ids =>
          let h := mark_skip ids h0 in
          SList (SList [SStr "class"; of_bool (wf coll h); of_bool (no_passed h); of_bool (direct coll h);
                        of_bool (chains_complete h); of_bool (unique_paths h); of_bool (targets_complete h); enc_walks coll h;
                        enc_failed_but_changed coll h]
                 :: enc_state h :: run_ops coll h h ops)
      | _, _, _ => bad_input
      end
  | SList [SStr "run"; c; ns; SList ops] =>
      match as_list_of dec_member c, as_list_of dec_node ns with
      | Some coll, Some h =>
          SList (SList [SStr "class"; of_bool (wf coll h); of_bool (no_passed h); of_bool (direct coll h);
                        of_bool (chains_complete h); of_bool (unique_paths h); of_bool (targets_complete h); enc_walks coll h;
                        enc_failed_but_changed coll h]
                 :: enc_state h :: run_ops coll h h ops)
      | _, _ => bad_input
      end
  | _ => bad_input
  end.
