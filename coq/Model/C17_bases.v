(* C17 model, base classes.
   Static agent : agents/visitor.py visit_classdef stores one expression per written base; its path is
                  ExprName.canonical_path (Object.resolve: C04's model, reused here) -- ExprSubscript.canonical_path is
                  its left side's, ExprAttribute's is the resolved root plus the segments -- looked up in the modules
                  collection and followed through the aliases found there (Class.resolved_bases).
   Dynamic agent: agents/inspector.py inspect_class: `module.qualname` of every entry of cls.__bases__ except object.
   Authority    : CPython class creation (types.resolve_bases): every written base that is not a class is replaced by
                  the result of its __mro_entries__ (typing._GenericAlias / _BaseGenericAlias / types.GenericAlias).
   Executable definitions only. *)
From Coq Require Import List ZArith String Ascii Bool Arith.
From Verif Require Import Lib.Sexp Model.C17_base Gen.C17_tables Model.C17_agents.
From Verif Require Model.C04_scope.
Import ListNotations.
Open Scope string_scope.
Open Scope list_scope.
Open Scope nat_scope.

(* ------------------------------------------------------------------------------------------------ *)
(* 1. written bases and the scopes they are written in                                               *)

Inductive bexpr :=
| BxName (n : string)                          (* Base *)
| BxAttr (root : string) (segs : list string)  (* typing.Generic *)
| BxSub (b : bexpr).                           (* b[...] : the subscript's arguments play no part *)

Fixpoint bhead (b : bexpr) : bexpr := match b with BxSub b' => bhead b' | _ => b end.
Fixpoint bsubs (b : bexpr) : nat := match b with BxSub b' => S (bsubs b') | _ => 0 end.

(* what a name is bound to in a scope, as the visitor records it *)
Inductive sbind :=
| SLocal                                                 (* an object defined in that scope *)
| SChain (c : list hop) (D : list string) (q : string)   (* `from ... import`: the hops (C17_agents) down to the definition D.q *)
| SExt (t : list string).                                (* an import whose target is outside the loaded package *)

(* innermost first; the last frame is the module (named by its dotted path), the others are class bodies *)
Record sframe := mkSF { sf_class : bool; sf_name : string; sf_tbl : list (string * sbind) }.

Definition alias_target (b : sbind) : option (list string) :=
  match b with
  | SLocal => None
  | SChain (h :: _) _ _ => Some (relative_to_absolute (h_mod h) (h_imp h))
  | SChain [] D q => Some (D ++ [q])
  | SExt t => Some t
  end.

Definition c04_member (b : sbind) : C04_scope.member :=
  match alias_target b with None => C04_scope.MObj | Some t => C04_scope.MAlias (join_dot t) end.

Definition c04_frame (f : sframe) : C04_scope.frame :=
  C04_scope.mkFrame (if sf_class f then C04_scope.KClass else C04_scope.KModule) (sf_name f)
                    (map (fun nb => (fst nb, c04_member (snd nb))) (sf_tbl f)) [].

Definition c04_chain (sc : list sframe) : C04_scope.chain := map c04_frame sc.

Fixpoint lookup_bind (n : string) (l : list (string * sbind)) : option sbind :=
  match l with [] => None | (k, v) :: r => if String.eqb k n then Some v else lookup_bind n r end.

(* the binding that answers: the innermost frame that has the name, not looking past the module *)
Fixpoint find_bind (sc : list sframe) (n : string) : option sbind :=
  match sc with
  | [] => None
  | f :: rest =>
      match lookup_bind n (sf_tbl f) with
      | Some b => Some b
      | None => if sf_class f then find_bind rest n else None
      end
  end.

Definition anode_of (root : string) (segs : list string) : C04_scope.anode :=
  fold_left C04_scope.AAttr segs (C04_scope.AName root).

Definition head_name (b : bexpr) : string :=
  match bhead b with BxName n => n | BxAttr r _ => r | BxSub _ => "" end.

(* canonical_path of the base expression *)
Definition canonical_base (sc : list sframe) (b : bexpr) : string :=
  match bhead b with
  | BxName n => C04_scope.canonical (c04_chain sc) n
  | BxAttr r segs => C04_scope.attr_canonical (c04_chain sc) (anode_of r segs)
  | BxSub _ => ""
  end.

(* modules_collection[path], following aliases (a path that is not in the collection stays as it is) *)
Definition static_base_path (sc : list sframe) (b : bexpr) : string :=
  let p := canonical_base sc b in
  match bhead b with
  | BxName n =>
      match find_bind sc n with
      | Some (SChain c D q) => match static_final c (D ++ [q]) with Some f => join_dot f | None => p end
      | _ => p
      end
  | _ => p
  end.

Definition static_bases (sc : list sframe) (bs : list bexpr) : list string := map (static_base_path sc) bs.

(* ------------------------------------------------------------------------------------------------ *)
(* 2. CPython: what the written bases evaluate to, and the bases the class gets                        *)

Inductive bval :=
| VClass (p : list string) (gensub : bool)        (* a class; gensub: typing.Generic is in its MRO *)
| VTypingAlias (written origin : list string)     (* typing.List, typing.Dict[str, int]: _name is set *)
| VUserAlias (origin : list string)               (* C[...], C below Generic: typing._GenericAlias without _name *)
| VGenericT                                       (* Generic[T] *)
| VProtocolT                                      (* Protocol[T] *)
| VTypesAlias (origin : list string)              (* list[int]: types.GenericAlias *)
| VErr.                                           (* the expression raises *)

Definition typing_generic : list string := ["typing"; "Generic"].
Definition typing_protocol : list string := ["typing"; "Protocol"].
Definition builtins_object : list string := ["builtins"; "object"].

(* v[...] *)
Definition subscript (v : bval) : bval :=
  match v with
  | VClass p g =>
      if path_eqb p typing_generic then VGenericT
      else if path_eqb p typing_protocol then VProtocolT
      else if g then VUserAlias p
      else match p with c :: _ => if String.eqb c "builtins" then VTypesAlias p else VErr | [] => VErr end
  | VTypingAlias w o => VTypingAlias w o
  | VUserAlias o => VUserAlias o
  | _ => VErr
  end.

Fixpoint subscript_n (k : nat) (v : bval) : bval := match k with 0 => v | S k' => subscript (subscript_n k' v) end.

(* the value of a written base, given what its head denotes *)
Definition eval_base (b : bexpr) (hv : bval) : bval := subscript_n (bsubs b) hv.

Definition is_generic_alias (v : bval) : bool :=       (* isinstance(v, typing._BaseGenericAlias) *)
  match v with VTypingAlias _ _ | VUserAlias _ | VGenericT | VProtocolT => true | _ => false end.
Definition is_generic_t (v : bval) : bool := match v with VGenericT => true | _ => false end.
Definition is_class_at (p : list string) (v : bval) : bool := match v with VClass q _ => path_eqb p q | _ => false end.
Definition is_gensub_class (v : bval) : bool := match v with VClass _ g => g | _ => false end.

(* `for b in bases[i+1:]: if isinstance(b, _BaseGenericAlias) or issubclass(b, Generic): break` of
   _BaseGenericAlias.__mro_entries__: Some true = left by break, None = issubclass raised (b is not a class) *)
Fixpoint later_generic (later : list bval) : option bool :=
  match later with
  | [] => Some false
  | b :: r =>
      if is_generic_alias b then Some true
      else match b with
           | VClass _ g => if g then Some true else later_generic r
           | _ => None
           end
  end.

(* v.__mro_entries__(bases) (a class stands for itself); all = the written bases, later = those after v.
   Generic[T] is one cached object: another Generic[T] further right `is self`. *)
Definition mro_entries (all later : list bval) (v : bval) : option (list (list string)) :=
  match v with
  | VClass p _ => Some [p]
  | VTypesAlias o => Some [o]
  | VUserAlias o => Some [o]
  | VProtocolT => Some [typing_protocol]
  | VGenericT =>
      if existsb (is_class_at typing_protocol) all then Some []
      else if existsb (fun b => is_generic_alias b && negb (is_generic_t b)) later then Some []
      else Some [typing_generic]
  | VTypingAlias _ o =>
      match later_generic later with
      | None => None
      | Some brk => Some ((if existsb (is_class_at o) all then [] else [o]) ++ (if brk then [] else [typing_generic]))
      end
  | VErr => None
  end.

Fixpoint resolve_bases (all : list bval) (vs : list bval) : option (list (list string)) :=
  match vs with
  | [] => Some []
  | v :: later =>
      match mro_entries all later v, resolve_bases all later with
      | Some e, Some r => Some (e ++ r)
      | _, _ => None
      end
  end.

Fixpoint has_dup (l : list (list string)) : bool :=
  match l with [] => false | x :: r => existsb (path_eqb x) r || has_dup r end.

(* cls.__bases__ (None: class creation raises); a class without bases gets object *)
Definition cpython_bases (vs : list bval) : option (list (list string)) :=
  match resolve_bases vs vs with
  | Some [] => Some [builtins_object]
  | Some r => if has_dup r then None else Some r
  | None => None
  end.

(* Inspector.inspect_class *)
Definition inspector_bases (rb : list (list string)) : list string :=
  map join_dot (filter (fun p => negb (inspector_skips_object && path_eqb p builtins_object)) rb).

(* the path under which the written base is known: module.qualname of the class / of the alias' origin; the typing
   aliases of builtins are known under their typing name *)
Definition written_path (v : bval) : list string :=
  match v with
  | VClass p _ => p
  | VTypingAlias w _ => w
  | VUserAlias o => o
  | VGenericT => typing_generic
  | VProtocolT => typing_protocol
  | VTypesAlias o => o
  | VErr => []
  end.

Fixpoint paths_eqb (a b : list (list string)) : bool :=
  match a, b with
  | [], [] => true
  | x :: a', y :: b' => path_eqb x y && paths_eqb a' b'
  | _, _ => false
  end.

(* gap predicate F8 (decidable): class creation does not keep the written bases *)
Definition rewrites (vs : list bval) : bool :=
  match resolve_bases vs vs with
  | Some r => negb (paths_eqb r (map written_path vs))
  | None => false
  end.

(* a sufficient syntactic criterion for `rewrites = false` *)
Definition safe_base (all later : list bval) (v : bval) : bool :=
  match v with
  | VClass _ _ | VTypesAlias _ | VUserAlias _ | VProtocolT => true
  | VGenericT => negb (existsb (is_class_at typing_protocol) all)
                 && negb (existsb (fun b => is_generic_alias b && negb (is_generic_t b)) later)
  | VTypingAlias _ _ | VErr => false
  end.
Fixpoint all_safe (all vs : list bval) : bool :=
  match vs with [] => true | v :: later => safe_base all later v && all_safe all later end.

(* ------------------------------------------------------------------------------------------------ *)
(* 3. what is compared: builtins without their module, `object` left out                            *)

Definition strip_builtins (s : string) : string :=
  if String.prefix "builtins." s then String.substring 9 (String.length s - 9) s else s.

Definition norm_bases (l : list string) : list string :=
  filter (fun s => negb (String.eqb s "object")) (map strip_builtins l).

Fixpoint strings_eqb (a b : list string) : bool :=
  match a, b with
  | [], [] => true
  | x :: a', y :: b' => String.eqb x y && strings_eqb a' b'
  | _, _ => false
  end.

(* ------------------------------------------------------------------------------------------------ *)
(* 4. s-expression interface                                                                        *)

Fixpoint dec_bexpr_fuel (fuel : nat) (s : sexp) : option bexpr :=
  match fuel with
  | 0 => None
  | S k =>
      match s with
      | SList [SStr "name"; SStr n] => Some (BxName n)
      | SList [SStr "attr"; SStr r; segs] => do segs' <- dec_path segs; Some (BxAttr r segs')
      | SList [SStr "sub"; b] => do b' <- dec_bexpr_fuel k b; Some (BxSub b')
      | _ => None
      end
  end.
Definition dec_bexpr (s : sexp) : option bexpr := dec_bexpr_fuel 8 s.

Definition dec_sbind (s : sexp) : option sbind :=
  match s with
  | SList [SStr "local"] => Some SLocal
  | SList [SStr "chain"; c; d; SStr q] => do c' <- as_list_of dec_hop c; do d' <- dec_path d; Some (SChain c' d' q)
  | SList [SStr "ext"; t] => do t' <- dec_path t; Some (SExt t')
  | _ => None
  end.
Definition dec_entry (s : sexp) : option (string * sbind) :=
  match s with SList [SStr n; b] => do b' <- dec_sbind b; Some (n, b') | _ => None end.
Definition dec_sframe (s : sexp) : option sframe :=
  match s with
  | SList [c; SStr n; t] => do c' <- as_bool c; do t' <- as_list_of dec_entry t; Some (mkSF c' n t')
  | _ => None
  end.

Definition dec_bval (s : sexp) : option bval :=
  match s with
  | SList [SStr "class"; p; g] => do p' <- dec_path p; do g' <- as_bool g; Some (VClass p' g')
  | SList [SStr "typingalias"; w; o] => do w' <- dec_path w; do o' <- dec_path o; Some (VTypingAlias w' o')
  | _ => None
  end.
Definition dec_base (s : sexp) : option (bexpr * bval) :=
  match s with SList [b; v] => do b' <- dec_bexpr b; do v' <- dec_bval v; Some (b', v') | _ => None end.

Definition enc_strings (l : list string) : sexp := SList (map SStr l).

(* [static paths; the Inspector's paths of CPython's bases (or ()); CPython's bases; rewrites; the two agents agree] *)
Definition run_bases (sc : list sframe) (bs : list (bexpr * bval)) : sexp :=
  let st := static_bases sc (map fst bs) in
  let vs := map (fun bv => eval_base (fst bv) (snd bv)) bs in
  let cb := cpython_bases vs in
  SList [enc_strings st;
         of_opt (fun rb => enc_strings (inspector_bases rb)) cb;
         of_opt (fun rb => enc_strings (map join_dot rb)) cb;
         of_bool (rewrites vs);
         of_bool (match cb with Some rb => strings_eqb (norm_bases st) (norm_bases (inspector_bases rb)) | None => false end)].
