(* C08 model: JSON serialisation of Griffe trees (encoders.py, models.py as_dict, expressions.py _expr_as_dict)
   and the bottom-up object_hook decoder (json_decoder, _load_*, _attach_parent_to_exprs).
   Executable definitions only. *)
From Coq Require Import List ZArith String Ascii Bool Arith.
From Verif Require Import Lib.Sexp Gen.C08_tables.
Import ListNotations.
Open Scope string_scope.
Open Scope list_scope.
Open Scope nat_scope.

(* ------------------------------------------------------------------------------------------------ *)
(* 1. JSON values; results with the Python exception that escapes                                    *)

Inductive json :=
| JNull | JBool (b : bool) | JNum (z : Z) | JStr (s : string)
| JArr (l : list json) | JObj (kvs : list (string * json)).

(* EUnmodelled: the document leaves the part of Python's dynamic behaviour this model describes *)
Inductive err := EKey (k : string) | EType | EValue | EAttr | EBuiltin | EUnmodelled.
Inductive res (A : Type) := Ok (a : A) | Err (e : err).
Arguments Ok {A} a. Arguments Err {A} e.

Definition bind {A B} (r : res A) (f : A -> res B) : res B :=
  match r with Ok a => f a | Err e => Err e end.
Notation "'let!' x ':=' a 'in' b" := (bind a (fun x => b)) (at level 200, x name, a at level 100, b at level 200).

(* f stays outside the fixpoint so that nested recursive calls through mapM pass the guard condition *)
Definition mapM {A B} (f : A -> res B) : list A -> res (list B) :=
  fix go (l : list A) : res (list B) :=
    match l with
    | [] => Ok []
    | x :: r => let! y := f x in let! ys := go r in Ok (y :: ys)
    end.

Definition of_option {A} (e : err) (o : option A) : res A := match o with Some a => Ok a | None => Err e end.

(* dict helpers: assoc lists, first binding wins (the encoder never emits a key twice) *)
Fixpoint lookup {A} (k : string) (l : list (string * A)) : option A :=
  match l with [] => None | (k', v) :: r => if String.eqb k' k then Some v else lookup k r end.
Definition has_key {A} (k : string) (l : list (string * A)) : bool :=
  match lookup k l with Some _ => true | None => false end.
Fixpoint remove_key {A} (k : string) (l : list (string * A)) : list (string * A) :=
  match l with [] => [] | (k', v) :: r => if String.eqb k' k then remove_key k r else (k', v) :: remove_key k r end.
Definition mem_str (s : string) (l : list string) : bool := existsb (String.eqb s) l.
Definition keys_of {A} (l : list (string * A)) : list string := map fst l.
Fixpoint list_eqb (a b : list string) : bool :=
  match a, b with
  | [], [] => true
  | x :: a', y :: b' => String.eqb x y && list_eqb a' b'
  | _, _ => false
  end.

(* ------------------------------------------------------------------------------------------------ *)
(* 2. inspect.cleandoc(value.rstrip()) on strings of code points below 256 (str.isspace on Latin-1:
      \t \n \v \f \r, the separators 0x1c-0x1f, space, NEL 0x85 and the no-break space 0xa0)             *)

Definition is_ws (c : ascii) : bool :=
  let n := nat_of_ascii c in ((9 <=? n) && (n <=? 13)) || ((28 <=? n) && (n <=? 32)) || (n =? 133) || (n =? 160).
Definition nl : ascii := ascii_of_nat 10.
Definition cr : ascii := ascii_of_nat 13.
Definition tab : ascii := ascii_of_nat 9.
Definition sp : ascii := ascii_of_nat 32.

Fixpoint lstrip (s : string) : string :=
  match s with
  | EmptyString => EmptyString
  | String c r => if is_ws c then lstrip r else s
  end.
Fixpoint rstrip (s : string) : string :=
  match s with
  | EmptyString => EmptyString
  | String c r => match rstrip r with
                  | EmptyString => if is_ws c then EmptyString else String c EmptyString
                  | r' => String c r'
                  end
  end.
Fixpoint spaces (n : nat) : string := match n with O => EmptyString | S k => String sp (spaces k) end.

(* str.expandtabs(8): the column restarts after \n and \r *)
Fixpoint expandtabs (col : nat) (s : string) : string :=
  match s with
  | EmptyString => EmptyString
  | String c r =>
      if Ascii.eqb c tab then let k := 8 - (col mod 8) in append (spaces k) (expandtabs (col + k) r)
      else if Ascii.eqb c nl || Ascii.eqb c cr then String c (expandtabs 0 r)
      else String c (expandtabs (S col) r)
  end.

(* str.split("\n") *)
Fixpoint split_nl (s : string) : list string :=
  match s with
  | EmptyString => [EmptyString]
  | String c r => if Ascii.eqb c nl then EmptyString :: split_nl r
                  else match split_nl r with
                       | h :: t => String c h :: t
                       | [] => [String c EmptyString]
                       end
  end.
Fixpoint join_nl (l : list string) : string :=
  match l with
  | [] => EmptyString
  | [x] => x
  | x :: r => append x (String nl (join_nl r))
  end.

Fixpoint drop_chars (n : nat) (s : string) : string :=
  match n, s with
  | O, _ => s
  | S k, String _ r => drop_chars k r
  | S _, EmptyString => EmptyString
  end.

(* minimum over the lines that have content of len(line) - len(line.lstrip()) *)
Fixpoint margin_of (ls : list string) : option nat :=
  match ls with
  | [] => None
  | l :: r =>
      let content := String.length (lstrip l) in
      if content =? 0 then margin_of r
      else let ind := String.length l - content in
           match margin_of r with Some m => Some (Nat.min ind m) | None => Some ind end
  end.

Definition is_empty (s : string) : bool := match s with EmptyString => true | _ => false end.
Fixpoint drop_while {A} (f : A -> bool) (l : list A) : list A :=
  match l with [] => [] | x :: r => if f x then drop_while f r else l end.

Definition cleandoc (doc : string) : string :=
  match split_nl (expandtabs 0 doc) with
  | [] => EmptyString
  | l0 :: rest =>
      let rest' := match margin_of rest with Some m => map (drop_chars m) rest | None => rest end in
      let ls := lstrip l0 :: rest' in
      join_nl (drop_while is_empty (rev (drop_while is_empty (rev ls))))
  end.

(* what Docstring.__init__ stores *)
Definition clean (v : string) : string := cleandoc (rstrip v).

(* ------------------------------------------------------------------------------------------------ *)
(* 3. Expressions (generic over the dataclasses of expressions.py), model objects, trees             *)

(* what ExprName.parent refers to:
   LNone  None
   LScope the Module/Class that _attach_parent_to_exprs passes for this slot (the owner's parent object)
   LPrev  the nearest preceding ExprName in the same ExprAttribute.values (the dotted-chain link)
   LStr   a str (the builder uses "str" for attributes of string literals)
   LOther any other object (a Function for assignments inside methods, ...) *)
Inductive plink := LNone | LScope | LPrev | LStr | LOther.

Inductive ev :=
| VNone | VBool (b : bool) | VStr (s : string)
| VEnum (s : string)                       (* a ParameterKind member, serialised as its value *)
| VList (l : list ev)
| VName (n : string) (p : plink)           (* ExprName *)
| VNode (cls : string) (fs : list (string * ev))    (* any other Expr dataclass; fields sorted by name *)
| VInt (z : Z).                            (* an int held in a field (ExprFormatted.conversion) *)

Record docstring := mkDoc { d_value : string; d_lineno : option Z; d_endlineno : option Z }.
Record decorator := mkDeco { dc_value : ev; dc_lineno : option Z; dc_endlineno : option Z }.
Record parameter := mkParam { p_name : string; p_annotation : ev; p_kind : option string; p_default : ev;
                              p_doc : option docstring }.

Inductive fpath := FPNone | FPStr (s : string) | FPList (l : list string).

Inductive extra :=
| XModule (fp : fpath)
| XClass (bases : list ev) (decos : list decorator)
| XFunction (decos : list decorator) (params : list parameter) (returns : ev)
| XAttribute (value annotation : ev).

Inductive tree :=
| TObj (name : string) (lineno endlineno : option Z) (doc : option docstring) (labels : list string)
       (members : list (string * tree)) (x : extra)
| TAlias (name target : string) (lineno endlineno : option Z).

Definition kind_of (x : extra) : string :=
  match x with XModule _ => kind_module | XClass _ _ => kind_class | XFunction _ _ _ => kind_function
             | XAttribute _ _ => kind_attribute end.
Definition tree_name (t : tree) : string := match t with TObj n _ _ _ _ _ _ => n | TAlias n _ _ _ => n end.

(* ------------------------------------------------------------------------------------------------ *)
(* 4. Encoding, minimal mode: as_dict(full=False) + JSONEncoder.default conventions                   *)

Definition is_vnone (e : ev) : bool := match e with VNone => true | _ => false end.

Fixpoint enc_ev (e : ev) : json :=
  match e with
  | VNone => JNull
  | VBool b => JBool b
  | VStr s => JStr s
  | VEnum s => JStr s
  | VList l => JArr (map enc_ev l)
  | VName n _ => JObj [("name", JStr n); ("cls", JStr "ExprName")]
  | VNode c fs => JObj (map (fun kv => match kv with (k, v) => (k, enc_ev v) end) fs ++ [("cls", JStr c)])
  | VInt z => JNum z
  end.

Definition optnum (o : option Z) : json := match o with Some z => JNum z | None => JNull end.
(* `if x is not None: base[k] = x` *)
Definition opt_field (k : string) (o : option Z) : list (string * json) :=
  match o with Some z => [(k, JNum z)] | None => [] end.
(* `if x: base[k] = x` *)
Definition truthy_field (k : string) (o : option Z) : list (string * json) :=
  match o with Some z => if Z.eqb z 0 then [] else [(k, JNum z)] | None => [] end.

Definition enc_doc (d : docstring) : json :=
  JObj [("value", JStr (d_value d)); ("lineno", optnum (d_lineno d)); ("endlineno", optnum (d_endlineno d))].
Definition enc_deco (d : decorator) : json :=
  JObj [("value", enc_ev (dc_value d)); ("lineno", optnum (dc_lineno d)); ("endlineno", optnum (dc_endlineno d))].
Definition enc_optstr (o : option string) : json := match o with Some s => JStr s | None => JNull end.
Definition enc_param (p : parameter) : json :=
  JObj ([("name", JStr (p_name p)); ("annotation", enc_ev (p_annotation p)); ("kind", enc_optstr (p_kind p));
         ("default", enc_ev (p_default p))]
        ++ match p_doc p with Some d => [("docstring", enc_doc d)] | None => [] end).

Definition enc_fpath (fp : fpath) : json :=
  match fp with FPNone => JNull | FPStr s => JStr s | FPList l => JArr (map JStr l) end.

Definition enc_ev_field (k : string) (e : ev) : list (string * json) :=
  if is_vnone e then [] else [(k, enc_ev e)].

Definition enc_extra (x : extra) : list (string * json) :=
  match x with
  | XModule fp => [("filepath", enc_fpath fp)]
  | XClass bases decos => [("bases", JArr (map enc_ev bases)); ("decorators", JArr (map enc_deco decos))]
  | XFunction decos params ret =>
      [("decorators", JArr (map enc_deco decos)); ("parameters", JArr (map enc_param params)); ("returns", enc_ev ret)]
  | XAttribute v a => enc_ev_field "value" v ++ enc_ev_field "annotation" a
  end.

Definition enc_docfield (doc : option docstring) : list (string * json) :=
  match doc with Some d => [("docstring", enc_doc d)] | None => [] end.

Fixpoint enc_min (t : tree) : json :=
  match t with
  | TAlias n tp ln eln =>
      JObj ([("kind", JStr kind_alias); ("name", JStr n); ("target_path", JStr tp)]
            ++ truthy_field "lineno" ln ++ truthy_field "endlineno" eln)
  | TObj n ln eln doc labels members x =>
      JObj ([("kind", JStr (kind_of x)); ("name", JStr n)]
            ++ opt_field "lineno" ln ++ opt_field "endlineno" eln ++ enc_docfield doc
            ++ [("labels", JArr (map JStr labels));
                ("members", JObj (map (fun km => match km with (k, m) => (k, enc_min m) end) members))]
            ++ enc_extra x)
  end.

(* ------------------------------------------------------------------------------------------------ *)
(* 5. Decoding: json.loads(..., object_hook=json_decoder)                                             *)

(* Python values that exist while a document is being decoded *)
Inductive pv :=
| PNull | PBool (b : bool) | PNum (z : Z) | PStr (s : string)
| PList (l : list pv) | PDict (kvs : list (string * pv))
| PExpr (e : ev)                 (* an Expr instance: VName or VNode *)
| PParam (p : parameter)
| PTree (t : tree).

Definition map_opt' {A B} (f : A -> option B) : list A -> option (list B) :=
  fix go (l : list A) : option (list B) :=
    match l with
    | [] => Some []
    | x :: r => match f x with
                | Some y => match go r with Some ys => Some (y :: ys) | None => None end
                | None => None
                end
    end.

(* a decoded value as the content of an expression field *)
Fixpoint as_ev (v : pv) : option ev :=
  match v with
  | PNull => Some VNone
  | PBool b => Some (VBool b)
  | PStr s => Some (VStr s)
  | PList l => match map_opt' as_ev l with Some l' => Some (VList l') | None => None end
  | PExpr e => Some e
  | PNum z => Some (VInt z)
  | _ => None
  end.
Fixpoint of_ev (e : ev) : pv :=
  match e with
  | VNone => PNull | VBool b => PBool b | VStr s => PStr s | VEnum s => PStr s
  | VList l => PList (map of_ev l)
  | VName _ _ => PExpr e
  | VNode _ _ => PExpr e
  | VInt z => PNum z
  end.

Definition ev_res (v : pv) : res ev := of_option EUnmodelled (as_ev v).
Definition as_optnum (v : option pv) : res (option Z) :=
  match v with None => Ok None | Some PNull => Ok None | Some (PNum z) => Ok (Some z) | Some _ => Err EUnmodelled end.
Definition as_string (v : pv) : res string := match v with PStr s => Ok s | _ => Err EUnmodelled end.
(* obj_dict[k] *)
Definition getitem (k : string) (d : list (string * pv)) : res pv := of_option (EKey k) (lookup k d).

(* -- expressions: _load_expression *)
Definition class_fields (c : string) : option (list (string * c08_default)) := lookup c expr_classes.
Definition is_required (d : c08_default) : bool := match d with DfRequired => true | _ => false end.
Definition default_ev (d : c08_default) : ev :=
  match d with DfRequired => VNone | DfNone => VNone | DfFalse => VBool false | DfTrue => VBool true | DfEnum v => VEnum v | DfInt z => VInt z end.

Definition is_name (e : ev) : bool := match e with VName _ _ => true | _ => false end.

(* the re-linking loop of _load_expression for ExprAttribute:
     previous = None
     for value in values: if previous is not None: value.parent = previous
                          if isinstance(value, ExprName): previous = value  elif isinstance(value, str): previous = "str"
   `value.parent = ...` on an ExprName is the dataclass field; any other Expr instance accepts the assignment too (the
   base class Expr has no __slots__, so the instances have a __dict__) and nothing observable changes; a str / None /
   list / bool raises AttributeError *)
Inductive prevk := PvNone | PvName | PvStr.
Definition is_vstr (e : ev) : bool := match e with VStr _ => true | _ => false end.
Definition next_prev (p : prevk) (v : ev) : prevk := if is_name v then PvName else if is_vstr v then PvStr else p.
Definition link_of (p : prevk) : option plink := match p with PvNone => None | PvName => Some LPrev | PvStr => Some LStr end.

Fixpoint relink_chain (prev : prevk) (l : list ev) : res (list ev) :=
  match l with
  | [] => Ok []
  | v :: r =>
      let! v' := (match link_of prev with
                  | None => Ok v
                  | Some lk => match v with VName n _ => Ok (VName n lk) | VNode _ _ => Ok v | _ => Err EAttr end
                  end) in
      let! r' := relink_chain (next_prev prev v) r in
      Ok (v' :: r')
  end.

Definition relink_fields (fs : list (string * ev)) : res (list (string * ev)) :=
  mapM (fun kv => match kv with
                  | (k, v) => if String.eqb k "values"
                              then match v with
                                   | VList l => let! l' := relink_chain PvNone l in Ok (k, VList l')
                                   | _ => Err EUnmodelled
                                   end
                              else Ok (k, v)
                  end) fs.

(* `expression["kind"] = ParameterKind(expression["kind"])` for ExprParameter: the dumped value becomes the enum member again *)
Definition fix_kind (fs : list (string * ev)) : res (list (string * ev)) :=
  mapM (fun kv => match kv with
                  | (k, v) => if String.eqb k "kind"
                              then match v with
                                   | VStr s => if mem_str s parameter_kind_values then Ok (k, VEnum s) else Err EValue
                                   | _ => Err EValue
                                   end
                              else Ok (k, v)
                  end) fs.
Definition fix_kind_t (fs : list (string * ev)) : list (string * ev) :=
  map (fun kv => match kv with
                 | (k, v) => if String.eqb k "kind"
                             then (k, match v with VStr s => if mem_str s parameter_kind_values then VEnum s else v | _ => v end)
                             else (k, v)
                 end) fs.

Definition load_expression (d : list (string * pv)) : res pv :=
  match lookup "cls" d with
  | Some (PStr c) =>
      let given := remove_key "cls" d in
      match class_fields c with
      | None => Err EAttr                                      (* getattr(expressions, name) *)
      | Some spec =>
          (* ParameterKind(expression["kind"]) is evaluated before the constructor is called *)
          if String.eqb c "ExprParameter"
             && match lookup "kind" given with
                | Some (PStr s) => negb (mem_str s parameter_kind_values)
                | Some _ => true
                | None => false
                end
          then Err EValue
          else
          if negb (forallb (fun kv => has_key (fst kv) spec) given) then Err EType       (* unexpected keyword *)
          else if negb (forallb (fun fd => negb (is_required (snd fd)) || has_key (fst fd) given) spec) then Err EType
          else
            let! fs := mapM (fun kv => let! e := ev_res (snd kv) in Ok (fst kv, e)) given in
            (* the dataclass holds one value per declared field; the dump lists them sorted by name (spec order) *)
            let all := map (fun fd => (fst fd, match lookup (fst fd) fs with Some v => v | None => default_ev (snd fd) end)) spec in
            if String.eqb c "ExprName" then
              match lookup "name" all, has_key "parent" given with
              | Some (VStr n), false => Ok (PExpr (VName n LNone))
              | _, _ => Err EUnmodelled
              end
            else
              let shown := filter (fun kv => negb (String.eqb (fst kv) "parent")) all in
              if String.eqb c "ExprAttribute"
              then let! fs' := relink_fields shown in Ok (PExpr (VNode c fs'))
              else if String.eqb c "ExprParameter" && has_key "kind" given
              then let! fs' := fix_kind shown in Ok (PExpr (VNode c fs'))
              else Ok (PExpr (VNode c shown))
      end
  | Some _ => Err EType                                        (* getattr(): attribute name must be string *)
  | None => Err (EKey "cls")
  end.

(* -- _load_docstring: Docstring( **obj_dict["docstring"]) *)
Definition load_docstring (d : list (string * pv)) : res (option docstring) :=
  match lookup "docstring" d with
  | None => Ok None
  | Some (PDict dd0) =>
      let dd := remove_key "parsed" dd0 in        (* the parsed sections of full dumps are not loaded *)
      if negb (forallb (fun kv => has_key (fst kv) docstring_init) dd) then Err EType
      else if negb (forallb (fun pr => negb (snd pr) || has_key (fst pr) dd) docstring_init) then Err EType
      else if has_key "parent" dd || has_key "parser" dd || has_key "parser_options" dd then Err EUnmodelled
      else
        let! v := getitem "value" dd in
        let! s := as_string v in
        let! ln := as_optnum (lookup "lineno" dd) in
        let! eln := as_optnum (lookup "endlineno" dd) in
        Ok (Some (mkDoc (clean s) ln eln))
  | Some _ => Err EAttr                       (* obj_dict["docstring"].items() *)
  end.

(* -- _load_decorators: [Decorator( **dec) for dec in obj_dict.get("decorators", [])] *)
Definition load_decorator (v : pv) : res decorator :=
  match v with
  | PDict dd =>
      if negb (forallb (fun kv => has_key (fst kv) decorator_init) dd) then Err EType
      else if negb (forallb (fun pr => negb (snd pr) || has_key (fst pr) dd) decorator_init) then Err EType
      else
        let! v := getitem "value" dd in
        let! e := ev_res v in
        let! ln := as_optnum (lookup "lineno" dd) in
        let! eln := as_optnum (lookup "endlineno" dd) in
        Ok (mkDeco e ln eln)
  | _ => Err EType
  end.
Definition load_decorators (d : list (string * pv)) : res (list decorator) :=
  match lookup "decorators" d with
  | None => Ok []
  | Some (PList l) => mapM load_decorator l
  | Some _ => Err EUnmodelled
  end.

(* -- _load_parameter (argument expressions are evaluated left to right) *)
Definition load_parameter (d : list (string * pv)) : res pv :=
  let! n := getitem "name" d in
  let! a := getitem "annotation" d in
  let! k := getitem "kind" d in
  let! k' := (match k with
              | PStr s => if mem_str s parameter_kind_values then Ok s else Err EValue
              | _ => Err EValue                                (* ParameterKind(<anything else>) *)
              end) in
  let! df := getitem "default" d in
  let! doc := load_docstring d in
  let! n' := as_string n in
  let! a' := ev_res a in
  let! df' := ev_res df in
  Ok (PParam (mkParam n' a' (Some k') df' doc)).

(* -- _attach_parent_to_expr: every name at any depth gets the scope as parent, through every dataclass field and
   every list; in a dotted chain (ExprAttribute.values) only the first element is visited and, of the others, those
   that are not names: the names after it keep the link the loading gave them *)
Fixpoint attach_ev (e : ev) : ev :=
  match e with
  | VName n _ => VName n LScope
  | VList l => VList (map attach_ev l)
  | VNode c fs =>
      if String.eqb c "ExprAttribute"
      then VNode c (map (fun kv => match kv with
                                   | (k, v) => if String.eqb k "values"
                                               then (k, match v with
                                                        | VList (v0 :: r) =>
                                                            VList (attach_ev v0 :: map (fun x => if is_name x then x else attach_ev x) r)
                                                        | _ => v
                                                        end)
                                               else (k, v)
                                   end) fs)
      else VNode c (map (fun kv => match kv with (k, v) => (k, attach_ev v) end) fs)
  | _ => e
  end.
Definition attach_top (e : ev) : ev := attach_ev e.

Definition attach_deco (d : decorator) : decorator := mkDeco (attach_top (dc_value d)) (dc_lineno d) (dc_endlineno d).
Definition attach_param (p : parameter) : parameter :=
  mkParam (p_name p) (attach_top (p_annotation p)) (p_kind p) (attach_top (p_default p)) (p_doc p).

(* _attach_parent_to_exprs(obj, parent): Class -> decorators, bases; Function -> decorators, parameters, returns;
   Attribute -> value, annotation.  (_load_class also attaches a class's own decorators and bases to the class itself;
   attaching the class as a member overrides that, so it shows on a class that is the root of a document only.) *)
Definition attach_extra (x : extra) : extra :=
  match x with
  | XModule fp => XModule fp
  | XClass bases decos => XClass (map attach_top bases) (map attach_deco decos)
  | XFunction decos params ret => XFunction (map attach_deco decos) (map attach_param params) (attach_top ret)
  | XAttribute v a => XAttribute (attach_top v) (attach_top a)
  end.
Definition attach_tree (t : tree) : tree :=
  match t with
  | TObj n ln eln doc labels ms x => TObj n ln eln doc labels ms (attach_extra x)
  | TAlias _ _ _ _ => t
  end.

(* -- labels: `obj.labels |= set(...)`; a set is represented by its sorted duplicate-free list *)
Fixpoint insert_str (s : string) (l : list string) : list string :=
  match l with
  | [] => [s]
  | x :: r => if String.eqb s x then l else if String.ltb s x then s :: l else x :: insert_str s r
  end.
Definition canon_labels (l : list string) : list string := fold_right insert_str [] l.

Definition load_labels (d : list (string * pv)) : res (list string) :=
  match lookup "labels" d with
  | None => Ok []
  | Some (PList l) => let! ss := mapM as_string l in Ok (canon_labels ss)
  | Some _ => Err EUnmodelled
  end.

(* -- members: `for m in members(.values()): obj.set_member(m.name, m); _attach_parent_to_exprs(m, obj)`.
   set_member splits dotted names and merges/re-targets on a name clash: outside the model. *)
Fixpoint no_dot (s : string) : bool :=
  match s with EmptyString => true | String c r => negb (Ascii.eqb c (ascii_of_nat 46)) && no_dot r end.
Definition plain_name (s : string) : bool := negb (is_empty s) && no_dot s.
Fixpoint distinct (l : list string) : bool :=
  match l with [] => true | x :: r => negb (mem_str x r) && distinct r end.

Definition load_members (d : list (string * pv)) : res (list (string * tree)) :=
  let! vals := (match lookup "members" d with
                | None => Ok []
                | Some (PDict kvs) => Ok (map snd kvs)
                | Some (PList l) => Ok l
                | Some _ => Err EUnmodelled
                end) in
  let! ts := mapM (fun v => match v with PTree t => Ok t | _ => Err EUnmodelled end) vals in
  let names := map tree_name ts in
  if forallb plain_name names && distinct names
  then Ok (map (fun t => (tree_name t, attach_tree t)) ts)
  else Err EUnmodelled.

(* -- object loaders *)
(* the file path is read and converted first (a32a9db), then Module(name=obj_dict["name"], ...) is evaluated *)
Definition load_module (d : list (string * pv)) : res pv :=
  let! fp := getitem "filepath" d in
  let! fp' := (match fp with
               | PStr s => Ok (FPStr s)
               | PNull => Ok FPNone                                             (* builtin module *)
               | PList l => let! ss := mapM as_string l in Ok (FPList ss)       (* namespace package *)
               | PNum _ => Err EType | PBool _ => Err EType                     (* Path(1) *)
               | _ => Err EUnmodelled
               end) in
  let! n := getitem "name" d in
  let! doc := load_docstring d in
  let! n' := as_string n in
  let! ms := load_members d in
  let! ls := load_labels d in
  Ok (PTree (TObj n' None None doc ls ms (XModule fp'))).

Definition as_ev_list (v : pv) : res (list ev) :=
  match v with PList l => mapM ev_res l | PNull => Ok [] | _ => Err EUnmodelled end.

Definition load_class (d : list (string * pv)) : res pv :=
  let! n := getitem "name" d in
  let! doc := load_docstring d in
  let! decos := load_decorators d in
  let! bases := getitem "bases" d in
  let! n' := as_string n in
  let! ln' := as_optnum (lookup "lineno" d) in
  let! eln := as_optnum (lookup "endlineno" d) in
  let! bases' := as_ev_list bases in
  let! ms := load_members d in
  let! ls := load_labels d in
  Ok (PTree (TObj n' ln' eln doc ls ms (XClass bases' decos))).

Definition load_function (d : list (string * pv)) : res pv :=
  let! n := getitem "name" d in
  let! ps := getitem "parameters" d in
  let! ret := getitem "returns" d in
  let! decos := load_decorators d in
  let! doc := load_docstring d in
  let! n' := as_string n in
  let! ps' := (match ps with
               | PList l => mapM (fun v => match v with PParam p => Ok p | _ => Err EUnmodelled end) l
               | _ => Err EUnmodelled end) in
  let! ret' := ev_res ret in
  let! ln' := as_optnum (lookup "lineno" d) in
  let! eln := as_optnum (lookup "endlineno" d) in
  let! ls := load_labels d in
  Ok (PTree (TObj n' ln' eln doc ls [] (XFunction decos ps' ret'))).

Definition get_ev (k : string) (d : list (string * pv)) : res ev :=
  match lookup k d with None => Ok VNone | Some v => ev_res v end.

Definition load_attribute (d : list (string * pv)) : res pv :=
  let! n := getitem "name" d in
  let! doc := load_docstring d in
  let! n' := as_string n in
  let! ln' := as_optnum (lookup "lineno" d) in
  let! eln := as_optnum (lookup "endlineno" d) in
  let! v := get_ev "value" d in
  let! a := get_ev "annotation" d in
  let! ls := load_labels d in
  Ok (PTree (TObj n' ln' eln doc ls [] (XAttribute v a))).

Definition load_alias (d : list (string * pv)) : res pv :=
  let! n := getitem "name" d in
  let! tp := getitem "target_path" d in
  let! n' := as_string n in
  let! tp' := as_string tp in
  let! ln' := as_optnum (lookup "lineno" d) in
  let! eln := as_optnum (lookup "endlineno" d) in
  Ok (PTree (TAlias n' tp' ln' eln)).

(* json_decoder: both tests require the value to be a str (a dict of members may have such keys, bound to objects) *)
Definition hook (d : list (string * pv)) : res pv :=
  match lookup "cls" d with
  | Some (PStr _) => load_expression d
  | _ =>
      match lookup "kind" d with
      | Some (PStr k) =>
          if String.eqb k kind_module then load_module d
          else if String.eqb k kind_class then load_class d
          else if String.eqb k kind_function then load_function d
          else if String.eqb k kind_attribute then load_attribute d
          else if String.eqb k kind_alias then load_alias d
          else if has_key "name" d then load_parameter d       (* Kind(k) raises ValueError: a parameter ... *)
          else Ok (PDict d)                                     (* ... or a docstring section of a full dump *)
      | _ => Ok (PDict d)
      end
  end.

Fixpoint decode (j : json) : res pv :=
  match j with
  | JNull => Ok PNull
  | JBool b => Ok (PBool b)
  | JNum z => Ok (PNum z)
  | JStr s => Ok (PStr s)
  | JArr l => let! l' := mapM decode l in Ok (PList l')
  | JObj kvs =>
      let! d := mapM (fun kv => match kv with (k, v) => let! v' := decode v in Ok (k, v') end) kvs in
      hook d
  end.

(* Module.from_json: the result must be a Module *)
Definition from_json (j : json) : res tree :=
  let! v := decode j in
  match v with
  | PTree t => match t with TObj _ _ _ _ _ _ (XModule _) => Ok t | _ => Err EType end
  | _ => Err EType
  end.

(* ------------------------------------------------------------------------------------------------ *)
(* 6. What a reload does to a tree, as an explicit function                                           *)

Fixpoint relink_chain_t (prev : prevk) (l : list ev) : list ev :=
  match l with
  | [] => []
  | v :: r => (match link_of prev, v with Some lk, VName n _ => VName n lk | _, _ => v end)
              :: relink_chain_t (next_prev prev v) r
  end.

Fixpoint reload_ev (e : ev) : ev :=
  match e with
  | VNone => VNone | VBool b => VBool b | VStr s => VStr s | VInt z => VInt z
  | VEnum s => VStr s
  | VList l => VList (map reload_ev l)
  | VName n _ => VName n LNone
  | VNode c fs =>
      let fs' := map (fun kv => match kv with (k, v) => (k, reload_ev v) end) fs in
      if String.eqb c "ExprAttribute"
      then VNode c (map (fun kv => match kv with
                                   | (k, v) => if String.eqb k "values"
                                               then (k, match v with VList l => VList (relink_chain_t PvNone l) | _ => v end)
                                               else (k, v)
                                   end) fs')
      else if String.eqb c "ExprParameter" then VNode c (fix_kind_t fs')
      else VNode c fs'
  end.

Definition reload_doc (d : docstring) : docstring := mkDoc (clean (d_value d)) (d_lineno d) (d_endlineno d).
Definition reload_deco (d : decorator) : decorator := mkDeco (reload_ev (dc_value d)) (dc_lineno d) (dc_endlineno d).
Definition reload_param (p : parameter) : parameter :=
  mkParam (p_name p) (reload_ev (p_annotation p)) (p_kind p) (reload_ev (p_default p)) (option_map reload_doc (p_doc p)).
Definition reload_extra (x : extra) : extra :=
  match x with
  | XModule fp => XModule fp
  | XClass bases decos => XClass (map reload_ev bases) (map reload_deco decos)
  | XFunction decos params ret => XFunction (map reload_deco decos) (map reload_param params) (reload_ev ret)
  | XAttribute v a => XAttribute (reload_ev v) (reload_ev a)
  end.
Definition zero_to_none (o : option Z) : option Z :=
  match o with Some z => if Z.eqb z 0 then None else Some z | None => None end.

Definition is_module (x : extra) : bool := match x with XModule _ => true | _ => false end.
Definition has_members (x : extra) : bool := match x with XModule _ => true | XClass _ _ => true | _ => false end.

Fixpoint reload (t : tree) : tree :=
  match t with
  | TAlias n tp ln eln => TAlias n tp (zero_to_none ln) (zero_to_none eln)
  | TObj n ln eln doc labels members x =>
      TObj n (if is_module x then None else ln) (if is_module x then None else eln)
           (option_map reload_doc doc) (canon_labels labels)
           (if has_members x
            then map (fun km => match km with (_, m) => (tree_name m, attach_tree (reload m)) end) members
            else [])
           (reload_extra x)
  end.

(* ------------------------------------------------------------------------------------------------ *)
(* 7. Well-formedness = representation invariants + complement of the known gaps (all decidable)      *)

(* names of the fields that are dumped for class c *)
Definition dumped_fields (c : string) : option (list string) :=
  match class_fields c with
  | Some spec => Some (filter (fun k => negb (String.eqb k "parent")) (keys_of spec))
  | None => None
  end.

(* ExprParameter.kind holds a ParameterKind (or, in a reloaded tree of the unrepaired code, its value) *)
Definition param_kind_ok (fs : list (string * ev)) : bool :=
  match lookup "kind" fs with
  | Some (VEnum s) => mem_str s parameter_kind_values
  | Some (VStr s) => mem_str s parameter_kind_values
  | _ => false
  end.

(* in ExprAttribute.values everything after the first element is an ExprName *)
Definition attr_values_ok (fs : list (string * ev)) : bool :=
  match fs with
  | [(k, VList (_ :: r))] => String.eqb k "values" && forallb is_name r
  | _ => false
  end.

Fixpoint wf_ev (e : ev) : bool :=
  match e with
  | VNone | VBool _ | VStr _ | VEnum _ | VInt _ => true
  | VList l => forallb wf_ev l
  | VName _ _ => true
  | VNode c fs =>
      negb (String.eqb c "ExprName")
      && match dumped_fields c with Some names => list_eqb (keys_of fs) names | None => false end
      && negb (mem_str "cls" (keys_of fs))
      && (negb (String.eqb c "ExprAttribute") || attr_values_ok fs)
      && (negb (String.eqb c "ExprParameter") || param_kind_ok fs)
      && forallb (fun kv => match kv with (_, v) => wf_ev v end) fs
  end.
(* a slot holds None, a str or an Expr *)
Definition wf_slot (e : ev) : bool :=
  match e with VNone | VStr _ | VName _ _ | VNode _ _ => wf_ev e | _ => false end.

Definition wf_deco (d : decorator) : bool := wf_slot (dc_value d).
Definition wf_param (p : parameter) : bool :=
  wf_slot (p_annotation p) && wf_slot (p_default p)
  && match p_kind p with Some k => mem_str k parameter_kind_values | None => false end.
Definition wf_extra (x : extra) : bool :=
  match x with
  | XModule _ => true
  | XClass bases decos => forallb wf_slot bases && forallb wf_deco decos
  | XFunction decos params ret => forallb wf_deco decos && forallb wf_param params && wf_slot ret
  | XAttribute v a => wf_slot v && wf_slot a
  end.

Definition is_some {A} (o : option A) : bool := match o with Some _ => true | None => false end.
Definition nonzero (o : option Z) : bool := match o with Some z => negb (Z.eqb z 0) | None => true end.

(* representation invariants (hold of every tree the agents build) *)
Fixpoint rep (t : tree) : bool :=
  match t with
  | TAlias n _ ln eln => nonzero ln && nonzero eln
  | TObj n ln eln doc labels members x =>
      list_eqb (canon_labels labels) labels
      && wf_extra x
      && (if is_module x then negb (is_some ln) && negb (is_some eln) else true)
      && (match members with [] => true | _ => has_members x end)
      && forallb (fun km => match km with (k, m) => String.eqb k (tree_name m) && plain_name k && rep m end) members
      && distinct (keys_of members)
  end.

(* the known gaps, each as a decidable predicate (true = the gap is present) *)
(* G-doc: a docstring value that is not a fixpoint of cleandoc(rstrip()) *)
Definition doc_fix (d : docstring) : bool := String.eqb (clean (d_value d)) (d_value d).
Definition optdoc_fix (o : option docstring) : bool := match o with Some d => doc_fix d | None => true end.
Definition extra_docs_fix (x : extra) : bool :=
  match x with XFunction _ params _ => forallb (fun p => optdoc_fix (p_doc p)) params | _ => true end.
Fixpoint gap_doc (t : tree) : bool :=
  match t with
  | TAlias _ _ _ _ => false
  | TObj _ _ _ doc _ members x =>
      negb (optdoc_fix doc) || negb (extra_docs_fix x)
      || existsb (fun km => match km with (_, m) => gap_doc m end) members
  end.

Definition wf (t : tree) : bool := rep t && negb (gap_doc t).

(* expression-level gap: a name whose parent link is not what the loader restores
   (has_enum: an enum value somewhere; only ExprParameter.kind is converted back on reload) *)
Fixpoint has_enum (e : ev) : bool :=
  match e with
  | VEnum _ => true
  | VList l => existsb has_enum l
  | VNode _ fs => existsb (fun kv => match kv with (_, v) => has_enum v end) fs
  | _ => false
  end.

Fixpoint ev_eqb (a b : ev) : bool :=
  match a, b with
  | VNone, VNone => true
  | VBool x, VBool y => Bool.eqb x y
  | VStr x, VStr y => String.eqb x y
  | VEnum x, VEnum y => String.eqb x y
  | VInt x, VInt y => Z.eqb x y
  | VList x, VList y =>
      (fix go (x : list ev) (y : list ev) : bool :=
         match x, y with [], [] => true | a' :: x', b' :: y' => ev_eqb a' b' && go x' y' | _, _ => false end) x y
  | VName n p, VName m q =>
      String.eqb n m && match p, q with
                        | LNone, LNone | LScope, LScope | LPrev, LPrev | LStr, LStr | LOther, LOther => true
                        | _, _ => false end
  | VNode c x, VNode d y =>
      String.eqb c d &&
      (fix go (x : list (string * ev)) (y : list (string * ev)) : bool :=
         match x, y with
         | [], [] => true
         | (k, a') :: x', (k', b') :: y' => String.eqb k k' && ev_eqb a' b' && go x' y'
         | _, _ => false end) x y
  | _, _ => false
  end.

(* every slot is re-attached by the loader: the expression comes back with the very same links *)
Definition slot_restored (e : ev) : bool := ev_eqb (attach_top (reload_ev e)) e.

Definition deco_restored (d : decorator) : bool := slot_restored (dc_value d).
Definition param_restored (p : parameter) : bool := slot_restored (p_annotation p) && slot_restored (p_default p).
Definition extra_restored (x : extra) : bool :=
  match x with
  | XModule _ => true
  | XClass bases decos => forallb slot_restored bases && forallb deco_restored decos
  | XFunction decos params ret => forallb deco_restored decos && forallb param_restored params && slot_restored ret
  | XAttribute v a => slot_restored v && slot_restored a
  end.
(* G-expr: some expression of the tree is not restored exactly (links or enum-typed fields) *)
Fixpoint gap_expr (t : tree) : bool :=
  match t with
  | TAlias _ _ _ _ => false
  | TObj _ _ _ _ _ members x =>
      negb (extra_restored x) || existsb (fun km => match km with (_, m) => gap_expr m end) members
  end.

(* ------------------------------------------------------------------------------------------------ *)
(* 8. Full mode: as_dict(full=True).  The derived, environment-dependent values (file paths relative to
      the working directory and the package, parsed docstring sections) are parameters of the encoder,
      looked up by object path; only `path` is computed.                                             *)

Record section := mkSection { s_kind : string; s_title : option string; s_value : json }.
Record finfo := mkFinfo {
  f_filepath : option json;          (* None: the `filepath` property raises BuiltinModuleError *)
  f_relative : option json;
  f_relative_package : option json;
  f_parsed : list section;           (* Docstring.parsed of the object's docstring *)
  f_param_parsed : list (string * list section) }.   (* parsed docstrings of parameters, by name *)

Definition enc_section (s : section) : json :=
  JObj ([("kind", JStr (s_kind s)); ("value", s_value s)]
        ++ match s_title s with Some t => if is_empty t then [] else [("title", JStr t)] | None => [] end).

Definition enc_doc_full (secs : list section) (d : docstring) : json :=
  JObj [("value", JStr (d_value d)); ("lineno", optnum (d_lineno d)); ("endlineno", optnum (d_endlineno d));
        ("parsed", JArr (map enc_section secs))].

Definition enc_param_full (fi : finfo) (p : parameter) : json :=
  JObj ([("name", JStr (p_name p)); ("annotation", enc_ev (p_annotation p)); ("kind", enc_optstr (p_kind p));
         ("default", enc_ev (p_default p))]
        ++ match p_doc p with
           | Some d => [("docstring", enc_doc_full (match lookup (p_name p) (f_param_parsed fi) with Some s => s | None => [] end) d)]
           | None => [] end).

Definition enc_extra_full (fi : finfo) (x : extra) : list (string * json) :=
  match x with
  | XFunction decos params ret =>
      [("decorators", JArr (map enc_deco decos)); ("parameters", JArr (map (enc_param_full fi) params)); ("returns", enc_ev ret)]
  | _ => enc_extra x
  end.

Definition dotted (prefix name : string) : string :=
  if is_empty prefix then name else append prefix (String (ascii_of_nat 46) name).

Definition default_finfo : finfo := mkFinfo None None None [] [].

Section Full.
  Context (F : string -> finfo).

  (* the full-only keys of Object.as_dict; each property may raise *)
  Definition full_keys (path : string) : res (list (string * json)) :=
    let fi := F path in
    let! fp := of_option EBuiltin (f_filepath fi) in
    let! rel := of_option EBuiltin (f_relative fi) in
    let! relp := of_option EBuiltin (f_relative_package fi) in
    Ok [("path", JStr path); ("filepath", fp); ("relative_filepath", rel); ("relative_package_filepath", relp)].

  (* Module.as_dict sets base["filepath"] after Object.as_dict: same key, position kept *)
  Fixpoint set_key (k : string) (v : json) (l : list (string * json)) : list (string * json) :=
    match l with
    | [] => [(k, v)]
    | (k', v') :: r => if String.eqb k' k then (k, v) :: r else (k', v') :: set_key k v r
    end.

  Fixpoint enc_full (prefix : string) (t : tree) : res json :=
    match t with
    | TAlias n tp ln eln =>
        Ok (JObj ([("kind", JStr kind_alias); ("name", JStr n); ("target_path", JStr tp); ("path", JStr (dotted prefix n))]
                  ++ truthy_field "lineno" ln ++ truthy_field "endlineno" eln))
    | TObj n ln eln doc labels members x =>
        let path := dotted prefix n in
        let! fk := full_keys path in
        let! ms := mapM (fun km => match km with (k, m) => let! j := enc_full path m in Ok (k, j) end) members in
        let base := [("kind", JStr (kind_of x)); ("name", JStr n)] ++ fk
                    ++ opt_field "lineno" ln ++ opt_field "endlineno" eln
                    ++ (match doc with Some d => [("docstring", enc_doc_full (f_parsed (F path)) d)] | None => [] end)
                    ++ [("labels", JArr (map JStr labels)); ("members", JObj ms)] in
        Ok (JObj (match x with
                  | XModule fp => set_key "filepath" (enc_fpath fp) base
                  | _ => base ++ enc_extra_full (F path) x
                  end))
    end.
End Full.

(* does any object of the tree (or a parameter) carry a docstring? *)
Definition extra_has_doc (x : extra) : bool :=
  match x with XFunction _ params _ => existsb (fun p => is_some (p_doc p)) params | _ => false end.
Fixpoint has_docstring (t : tree) : bool :=
  match t with
  | TAlias _ _ _ _ => false
  | TObj _ _ _ doc _ members x =>
      is_some doc || extra_has_doc x || existsb (fun km => match km with (_, m) => has_docstring m end) members
  end.

(* ------------------------------------------------------------------------------------------------ *)
(* 9. Field-by-field equivalence: a tree with the parent links and the enum/str distinction erased     *)

Fixpoint erase_ev (e : ev) : ev :=
  match e with
  | VNone => VNone | VBool b => VBool b | VStr s => VStr s | VInt z => VInt z
  | VEnum s => VStr s
  | VList l => VList (map erase_ev l)
  | VName n _ => VName n LNone
  | VNode c fs => VNode c (map (fun kv => match kv with (k, v) => (k, erase_ev v) end) fs)
  end.
Definition erase_deco (d : decorator) : decorator := mkDeco (erase_ev (dc_value d)) (dc_lineno d) (dc_endlineno d).
Definition erase_param (p : parameter) : parameter :=
  mkParam (p_name p) (erase_ev (p_annotation p)) (p_kind p) (erase_ev (p_default p)) (p_doc p).
Definition erase_extra (x : extra) : extra :=
  match x with
  | XModule fp => XModule fp
  | XClass bases decos => XClass (map erase_ev bases) (map erase_deco decos)
  | XFunction decos params ret => XFunction (map erase_deco decos) (map erase_param params) (erase_ev ret)
  | XAttribute v a => XAttribute (erase_ev v) (erase_ev a)
  end.
Fixpoint erase (t : tree) : tree :=
  match t with
  | TAlias n tp ln eln => TAlias n tp ln eln
  | TObj n ln eln doc labels members x =>
      TObj n ln eln doc labels (map (fun km => match km with (k, m) => (k, erase m) end) members) (erase_extra x)
  end.

(* does any object of the tree carry a docstring? (parameter docstrings exist only in hand-built trees) *)
Fixpoint has_obj_doc (t : tree) : bool :=
  match t with
  | TAlias _ _ _ _ => false
  | TObj _ _ _ doc _ members _ => is_some doc || existsb (fun km => match km with (_, m) => has_obj_doc m end) members
  end.
