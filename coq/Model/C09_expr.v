(* C09 -- expression objects and docstring section items, concretely.
   expressions.py `_expr_as_dict`: for an expression of class `cls`, the class's dataclass fields (sorted by name, `parent`
   dropped -- the table Gen/C09_exprs.v, regenerated from the source) each through `_field_as_dict` (an expression
   recursively, a list element-wise, anything else as it is), then "cls".
   docstrings/models.py: DocstringElement.as_dict / DocstringNamedElement.as_dict, example pairs.
   Executable definitions only. *)
From Coq Require Import List ZArith String Ascii Bool Arith.
From Verif Require Import Lib.Sexp Model.C09_json Gen.C09_exprs.
Import ListNotations.
Open Scope string_scope.
Open Scope list_scope.
Open Scope nat_scope.

(* a field value: None, a string (also: a str-Enum member such as ParameterKind, dumped as its value), a bool, an int
   (ExprFormatted.conversion), a list,
   or an expression given by its class name and its field values in table order *)
Inductive fval :=
| FNone
| FStr (s : string)
| FBool (b : bool)
| FInt (z : Z)
| FList (l : list fval)
| FExpr (cls : string) (vals : list fval).

Definition field_names (cls : string) : list string :=
  match lookup cls expr_table with Some spec => map fst spec | None => [] end.

Fixpoint enc_fval (v : fval) : json :=
  match v with
  | FNone => JNull
  | FStr s => JStr s
  | FBool b => JBool b
  | FInt z => JInt z
  | FList l => JArr (map enc_fval l)
  | FExpr cls vals => JObj (combine (field_names cls) (map enc_fval vals) ++ [("cls", JStr cls)])
  end.

(* what the loaders build: the class is in the table, one value per field, scalar fields hold no list, sequence fields
   hold a list of scalars; recursively *)
Definition is_scalar (v : fval) : bool := match v with FList _ => false | _ => true end.

Definition kind_matches (k : fkind) (v : fval) : bool :=
  match k, v with
  | FScalar, FList _ => false
  | FScalar, _ => true
  | FSeq, FList l => forallb is_scalar l
  | FSeq, _ => false
  end.

Fixpoint fval_ok (v : fval) : bool :=
  match v with
  | FList l => forallb fval_ok l
  | FExpr cls vals =>
      match lookup cls expr_table with
      | Some spec =>
          (fix go (vals : list fval) (spec : list (string * fkind)) {struct vals} : bool :=
             match vals, spec with
             | [], [] => true
             | v :: vals', (_, k) :: spec' => kind_matches k v && fval_ok v && go vals' spec'
             | _, _ => false
             end) vals spec
      | None => false
      end
  | _ => true
  end.

(* ---------- shapes ---------- *)

Definition expr_nt : string := "expression".

Definition sh_scalar : shape := ShUnion [ShNull; ShStr; ShBool; ShRef expr_nt; ShInt].
Definition sh_field (k : fkind) : shape := match k with FScalar => sh_scalar | FSeq => ShArr sh_scalar end.

Definition sh_expr_class (row : string * list (string * fkind)) : shape :=
  ShObj (map (fun f => (fst f, (true, sh_field (snd f)))) (snd row) ++ [("cls", (true, ShLit (fst row)))]).

Definition sh_expression : shape := ShUnion (map sh_expr_class expr_table).

(* the generated table is usable: per class, distinct field names, none of them "cls" *)
Fixpoint nodup_str (l : list string) : bool :=
  match l with [] => true | x :: r => negb (str_in x r) && nodup_str r end.

Definition expr_table_ok : bool :=
  forallb (fun row => nodup_str (map fst (snd row) ++ ["cls"])) expr_table && nodup_str (map fst expr_table).

(* ---------- sexp codec ---------- *)

Fixpoint fval_of (s : sexp) : option fval :=
  match s with
  | SList [SStr "n"] => Some FNone
  | SList [SStr "s"; SStr x] => Some (FStr x)
  | SList [SStr "b"; SInt z] => Some (FBool (negb (z =? 0)%Z))
  | SList [SStr "i"; SInt z] => Some (FInt z)
  | SList [SStr "l"; SList items] =>
      option_map FList
        ((fix go (l : list sexp) : option (list fval) :=
            match l with
            | [] => Some []
            | x :: r => match fval_of x, go r with Some a, Some b => Some (a :: b) | _, _ => None end
            end) items)
  | SList [SStr "e"; SStr cls; SList items] =>
      option_map (FExpr cls)
        ((fix go (l : list sexp) : option (list fval) :=
            match l with
            | [] => Some []
            | x :: r => match fval_of x, go r with Some a, Some b => Some (a :: b) | _, _ => None end
            end) items)
  | _ => None
  end.
