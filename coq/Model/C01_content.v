(* C01 content model: the DECLARATIVE description of what every member of a module / class / __init__ function object
   contains (kind, line span, runtime flag, labels, docstring span, alias target), as a fold over the bindings the
   level makes, in source order.  Executable definitions only; Proofs/C01_content.v shows that the visitor machine of
   Model/C01_visitor.v computes exactly these tables.

   * [dbind]          one binding occurrence with everything the visitor reads off the statement
   * [step]           what the binding does to the member currently bound to its name (Griffe's rules: a definition
                      replaces; an @overload definition changes nothing; @x.setter/@x.deleter on a property adds the
                      writable/deletable label; an attribute assignment directly inside if/except keeps an existing
                      member; otherwise it replaces it and inherits labels and docstring of the earlier non-alias member)
   * [run_table]      the member table (ordered name -> info) after a list of bindings
   * [level_details]  the bindings of a level, in source order, each attribute with the docstring candidate that the
                      enclosing statement list provides: the string statement IMMEDIATELY FOLLOWING it in the same list
   * [doc_labels]     the documented decorator -> label table (visitor.py: builtin_decorators, stdlib_decorators) *)
From Coq Require Import List ZArith String Ascii Bool Arith.
From Verif Require Import Lib.Sexp Model.C01_base Gen.C01_tables Model.C01_visitor.
Import ListNotations.
Open Scope string_scope.
Open Scope list_scope.
Open Scope nat_scope.

(* ---------- the documented decorator table (hand-written from the documentation of the two mappings) ---------- *)
Definition doc_labels (path : string) : list string :=
  if String.eqb path "property" then ["property"]
  else if String.eqb path "staticmethod" then ["staticmethod"]
  else if String.eqb path "classmethod" then ["classmethod"]
  else if String.eqb path "abc.abstractmethod" then ["abstractmethod"]
  else if String.eqb path "functools.cache" then ["cached"]
  else if String.eqb path "functools.cached_property" then ["cached"; "property"]
  else if String.eqb path "cached_property.cached_property" then ["cached"; "property"]
  else if String.eqb path "functools.lru_cache" then ["cached"]
  else if String.eqb path "dataclasses.dataclass" then ["dataclass"]
  else [].
Definition doc_paths : list string :=
  ["property"; "staticmethod"; "classmethod"; "abc.abstractmethod"; "functools.cache"; "functools.cached_property";
   "cached_property.cached_property"; "functools.lru_cache"; "dataclasses.dataclass"].
(* what one decorator contributes according to the documentation: accessor decorators and unknown paths nothing *)
Definition doc_deco_labels (d : deco) : list string :=
  match d with DPath p => doc_labels p | _ => [] end.

(* ---------- binding occurrences with their content ---------- *)
Inductive dbind :=
| DBDef (g : bool) (ln dln eln : nat) (name : string) (a : bool) (ds : list deco) (doc : option (nat * nat))
| DBCls (g : bool) (ln dln eln : nat) (name : string) (ds : list deco) (doc : option (nat * nat))
| DBAttr (g cond : bool) (ln eln : nat) (name : string) (labels : list string) (doc : option (nat * nat))
| DBAlias (g : bool) (ln eln : nat) (name target : string).

Definition db_name (d : dbind) : string :=
  match d with
  | DBDef _ _ _ _ n _ _ _ => n | DBCls _ _ _ _ n _ _ => n | DBAttr _ _ _ _ n _ _ => n | DBAlias _ _ _ n _ => n
  end.

Definition info_is_property (c : option info) : bool :=
  match c with
  | Some i => match ikind i with KAlias => false | _ => str_mem "property" (ilabels i) end
  | None => false
  end.
Fixpoint base_property_i (c : option info) (n : string) (ds : list deco) : option string :=
  match ds with
  | [] => None
  | DAccessor b fn :: r =>
      if (String.eqb fn "setter" || String.eqb fn "deleter") && String.eqb b n && info_is_property c
      then Some fn else base_property_i c n r
  | _ :: r => base_property_i c n r
  end.
Definition info_add_label (l : string) (i : info) : info :=
  mkInfo (ikind i) (iline i) (iend i) (iruntime i) (ladd l (ilabels i)) (idoc i) (itarget i).

Definition step (cur : option info) (d : dbind) : option info :=
  match d with
  | DBDef g ln dln eln name a ds doc =>
      let labels := def_labels a ds in
      if def_is_property a ds then Some (mkInfo KAttr ln eln (negb g) labels doc "")
      else if def_is_overload ds then cur
      else match base_property_i cur name ds with
           | Some fn => option_map (info_add_label (if String.eqb fn "setter" then "writable" else "deletable")) cur
           | None => Some (mkInfo KFun (def_first_line ln dln ds) eln (negb g) labels doc "")
           end
  | DBCls g ln dln eln name ds doc =>
      Some (mkInfo KCls (def_first_line ln dln ds) eln (negb g) (decorators_to_labels ds) doc "")
  | DBAttr g cond ln eln name labels doc =>
      match cur with
      | Some i =>
          if cond then cur
          else
            let fwd := match ikind i with KAlias => false | _ => true end in
            Some (mkInfo KAttr ln eln (negb g) (if fwd then lunion labels (ilabels i) else labels)
                         (if fwd then match doc with Some d => Some d | None => idoc i end else doc) "")
      | None => Some (mkInfo KAttr ln eln (negb g) labels doc "")
      end
  | DBAlias g ln eln name target => Some (mkInfo KAlias ln eln (negb g) [] None target)
  end.

(* the member table: ordered association list name -> info; a dict assignment keeps the position of an existing key *)
Definition table := list (string * info).
Definition apply_d (t : table) (d : dbind) : table :=
  match step (lookup (db_name d) t) d with
  | Some i => assign (db_name d) i t
  | None => t
  end.
Definition run_table (ds : list dbind) (t : table) : table := fold_left apply_d ds t.
(* the same, one name at a time *)
Definition content (n : string) (cur : option info) (ds : list dbind) : option info :=
  fold_left (fun c d => if String.eqb (db_name d) n then step c d else c) ds cur.

Definition minfo (ms : list (string * obj)) : table := map (fun p => (fst p, oinfo (snd p))) ms.

(* ---------- which bindings a level makes ---------- *)
Definition attr_details (g cond : bool) (ln eln : nat) (labels : list string) (nd : option (nat * nat)) (ns : list string) : list dbind :=
  map (fun n => DBAttr g cond ln eln n labels nd) (plain_names ns).
Definition import_details (g : bool) (ln eln : nat) (names : list (string * string)) : list dbind :=
  map (fun x => DBAlias g ln eln (fst x) (snd x)) names.
Fixpoint importfrom_details (g : bool) (ln eln : nat) (path : string) (names : list impname) : list dbind :=
  match names with
  | [] => []
  | ISkip :: r => importfrom_details g ln eln path r
  | IStar an ap :: r | IName an ap :: r =>
      if String.eqb ap (dot path an) then importfrom_details g ln eln path r
      else DBAlias g ln eln an ap :: importfrom_details g ln eln path r
  end.

(* instance attributes: what the statements of an __init__ body bind on the class *)
Fixpoint init_details (g : bool) (pk : pkind) (nd : option (nat * nat)) (s : stmt) {struct s} : list dbind :=
  let idl := fix idl (g : bool) (pk : pkind) (l : list stmt) {struct l} : list dbind :=
               match l with [] => [] | x :: r => init_details g pk (next_doc r None) x ++ idl g pk r end in
  match s with
  | SAssign ln eln ts _ =>
      match names_init ts with
      | Some ns => attr_details g (is_cond pk) ln eln (attr_labels InInit true false) nd ns
      | None => [] end
  | SAnn ln eln t hv cv _ =>
      match names_init [t] with
      | Some ns => attr_details g (is_cond pk) ln eln (attr_labels InInit hv cv) nd ns
      | None => [] end
  | SIf tc body orelse => idl (gbody g pk tc) PIf body ++ idl (gelse g pk tc) PIf orelse
  | SBlock ch => idl g POther ch
  | SSub h body => idl g (if h then PHandler else POther) body
  | _ => []
  end.
Fixpoint init_details_list (g : bool) (pk : pkind) (follow : option (nat * nat)) (l : list stmt) : list dbind :=
  match l with [] => [] | x :: r => init_details g pk (next_doc r follow) x ++ init_details_list g pk follow r end.

(* a module level (InModule), a class level (InClass), or the own members of an __init__ function object (InInit:
   definitions, classes and imports only; assignments bind nothing on the function) *)
Fixpoint level_details (k : skind) (path : string) (g : bool) (pk : pkind) (nd : option (nat * nat)) (s : stmt) {struct s} : list dbind :=
  let ldl := fix ldl (g : bool) (pk : pkind) (l : list stmt) {struct l} : list dbind :=
               match l with [] => [] | x :: r => level_details k path g pk (next_doc r None) x ++ ldl g pk r end in
  match s with
  | SDef ln dln eln name a ds body =>
      DBDef g ln dln eln name a ds (head_doc body) ::
      (match k with
       | InClass => if String.eqb name "__init__" && negb (def_is_property a ds)
                    then init_details_list g PFunction None body else []
       | _ => [] end)
  | SCls ln dln eln name ds body => [DBCls g ln dln eln name ds (head_doc body)]
  | SAssign ln eln ts _ =>
      match k with
      | InInit => []
      | _ => match names_scope ts with
             | Some ns => attr_details g (is_cond pk) ln eln (attr_labels k true false) nd ns
             | None => [] end
      end
  | SAnn ln eln t hv cv _ =>
      match k with
      | InInit => []
      | _ => match names_scope [t] with
             | Some ns => attr_details g (is_cond pk) ln eln (attr_labels k hv cv) nd ns
             | None => [] end
      end
  | SImport ln eln names => import_details g ln eln names
  | SImportFrom ln eln names => importfrom_details g ln eln path names
  | SIf tc body orelse => ldl (gbody g pk tc) PIf body ++ ldl (gelse g pk tc) PIf orelse
  | SBlock ch => ldl g POther ch
  | SSub h body => ldl g (if h then PHandler else POther) body
  | _ => []
  end.
Fixpoint level_details_list (k : skind) (path : string) (g : bool) (pk : pkind) (follow : option (nat * nat)) (l : list stmt) : list dbind :=
  match l with [] => [] | x :: r => level_details k path g pk (next_doc r follow) x ++ level_details_list k path g pk follow r end.

(* the plain bindings of Model/C01_visitor.v behind a detailed binding (an @overload definition binds nothing) *)
Definition to_bindings (d : dbind) : list binding :=
  match d with
  | DBDef g ln dln _ name a ds _ =>
      if def_is_property a ds then [mkB name ln BProp false g]
      else if def_is_overload ds then [] else [mkB name (def_first_line ln dln ds) BFun false g]
  | DBCls g ln dln _ name ds _ => [mkB name (def_first_line ln dln ds) BCls false g]
  | DBAttr g cond ln _ name _ _ => [mkB name ln BAttr cond g]
  | DBAlias g ln _ name _ => [mkB name ln BAlias false g]
  end.

(* ---------- "the string statement that immediately follows" ---------- *)
(* every statement of a list paired with the docstring candidate its list gives it *)
Definition doc_after (l : list stmt) (i : nat) : option (nat * nat) :=
  match nth_error l (S i) with Some (SDoc ln eln) => Some (ln, eln) | _ => None end.
Fixpoint with_next (l : list stmt) : list (stmt * option (nat * nat)) :=
  match l with [] => [] | x :: r => (x, next_doc r None) :: with_next r end.

(* ---------- s-expression interface ---------- *)
Definition enc_info (n : string) (i : info) : sexp :=
  SList [SStr n; enc_okind (ikind i); of_nat (iline i); of_nat (iend i); of_bool (iruntime i);
         enc_strs (ilabels i); of_opt enc_span (idoc i); SStr (itarget i)].
Definition enc_table (t : table) : sexp := SList (map (fun p => enc_info (fst p) (snd p)) t).

(* every class statement / descending __init__ definition reachable in a statement list, with the declarative table of
   its members: ("class"|"init", dotted path, reported first line, table) in source order, any depth (classes inside __init__ bodies and
   inside nested classes included; bodies of other functions are not visited by Griffe) *)
Fixpoint nested_tables (k : skind) (path : string) (g : bool) (pk : pkind) (s : stmt) {struct s} : list sexp :=
  let ntl := fix ntl (k : skind) (path : string) (g : bool) (pk : pkind) (l : list stmt) {struct l} : list sexp :=
               match l with [] => [] | x :: r => nested_tables k path g pk x ++ ntl k path g pk r end in
  match s with
  | SDef ln dln eln name a ds body =>
      match k with
      | InClass =>
          if String.eqb name "__init__" && negb (def_is_property a ds)
          then SList [SStr "init"; SStr (dot path name); of_nat (def_first_line ln dln ds);
                      enc_table (run_table (level_details_list InInit (dot path name) g PFunction None body) [])]
               :: ntl InInit (dot path name) g PFunction body
          else []
      | _ => []
      end
  | SCls ln dln eln name ds body =>
      SList [SStr "class"; SStr (dot path name); of_nat (def_first_line ln dln ds);
             enc_table (run_table (level_details_list InClass (dot path name) g PScope None body) [])]
      :: ntl InClass (dot path name) g PScope body
  | SIf tc body orelse => ntl k path (gbody g pk tc) PIf body ++ ntl k path (gelse g pk tc) PIf orelse
  | SBlock ch => ntl k path g POther ch
  | SSub h body => ntl k path g (if h then PHandler else POther) body
  | _ => []
  end.
Fixpoint nested_tables_list (k : skind) (path : string) (g : bool) (pk : pkind) (l : list stmt) : list sexp :=
  match l with [] => [] | x :: r => nested_tables k path g pk x ++ nested_tables_list k path g pk r end.

Definition run_content (mname : string) (body : list stmt) : sexp :=
  SList [enc_table (run_table (level_details_list InModule mname false PScope None body) []);
         SList (nested_tables_list InModule mname false PScope body)].
