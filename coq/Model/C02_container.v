(* C02 model: the container class of models.py (class "Parameters": lookup by name or index, setitem, delitem,
   contains, add), an abstract list specification of the same operations, CPython's bound-method view of a
   signature (inspect._signature_bound_method) and CPython's by-name view (Signature.parameters mapping).
   Executable definitions only. *)
From Coq Require Import List ZArith String Ascii Bool Arith.
From Verif Require Import Lib.Sexp Model.C02_kinds Model.C02_params.
Import ListNotations.
Open Scope string_scope.
Open Scope list_scope.
Open Scope nat_scope.

(* str.lstrip("*") *)
Fixpoint lstrip_star (s : string) : string :=
  match s with
  | EmptyString => EmptyString
  | String c r => if Ascii.eqb c "*"%char then lstrip_star r else s
  end.

Definition name_is (n : string) (p : param) : bool := String.eqb (pname p) n.

Inductive key := KInt (i : Z) | KStr (s : string).

(* ---------- concrete level: the algorithms as written in models.py ---------- *)

(* next(idx for idx, param in enumerate(self._params) if param.name == name); None = StopIteration *)
Fixpoint find_index_from (n : string) (l : list param) (i : nat) : option nat :=
  match l with
  | [] => None
  | p :: r => if name_is n p then Some i else find_index_from n r (S i)
  end.
Definition find_index (n : string) (l : list param) : option nat := find_index_from n l 0.

(* next(param for param in self._params if param.name == name) *)
Fixpoint find_param (n : string) (l : list param) : option param :=
  match l with
  | [] => None
  | p :: r => if name_is n p then Some p else find_param n r
  end.

(* list subscript with a Python int: negative counts from the end; None = IndexError *)
Definition py_index (i : Z) (len : nat) : option nat :=
  if (0 <=? i)%Z then (if (i <? Z.of_nat len)%Z then Some (Z.to_nat i) else None)
  else (if (- Z.of_nat len <=? i)%Z then Some (Z.to_nat (Z.of_nat len + i)) else None).

Fixpoint set_nth (j : nat) (p : param) (l : list param) : list param :=
  match l, j with
  | [], _ => []
  | _ :: r, O => p :: r
  | x :: r, S j' => x :: set_nth j' p r
  end.

Fixpoint del_nth (j : nat) (l : list param) : list param :=
  match l, j with
  | [], _ => []
  | _ :: r, O => r
  | x :: r, S j' => x :: del_nth j' r
  end.

Definition c_getitem (k : key) (l : list param) : result param :=
  match k with
  | KInt i => match py_index i (List.length l) with
              | Some j => match nth_error l j with Some p => Ok p | None => Err "IndexError" end
              | None => Err "IndexError"
              end
  | KStr s => match find_param (lstrip_star s) l with Some p => Ok p | None => Err "KeyError" end
  end.

Definition c_setitem (k : key) (p : param) (l : list param) : result (list param) :=
  match k with
  | KInt i => match py_index i (List.length l) with
              | Some j => Ok (set_nth j p l)
              | None => Err "IndexError"
              end
  | KStr s => match find_index (lstrip_star s) l with
              | Some j => Ok (set_nth j p l)
              | None => Ok (l ++ [p])
              end
  end.

Definition c_delitem (k : key) (l : list param) : result (list param) :=
  match k with
  | KInt i => match py_index i (List.length l) with
              | Some j => Ok (del_nth j l)
              | None => Err "IndexError"
              end
  | KStr s => match find_index (lstrip_star s) l with
              | Some j => Ok (del_nth j l)
              | None => Err "KeyError"
              end
  end.

(* try: next(param for ... if param.name == param_name.lstrip("*")) except StopIteration: False *)
Definition c_contains (s : string) (l : list param) : bool :=
  match find_param (lstrip_star s) l with Some _ => true | None => false end.

Definition c_add (p : param) (l : list param) : result (list param) :=
  if c_contains (pname p) l then Err "ValueError" else Ok (l ++ [p]).

(* ---------- abstract level: the same operations as plain list functions, no positions ---------- *)
Fixpoint remove_first (f : param -> bool) (l : list param) : option (list param) :=
  match l with
  | [] => None
  | x :: r => if f x then Some r else match remove_first f r with Some r' => Some (x :: r') | None => None end
  end.

Fixpoint replace_first (f : param -> bool) (p : param) (l : list param) : option (list param) :=
  match l with
  | [] => None
  | x :: r => if f x then Some (p :: r) else match replace_first f p r with Some r' => Some (x :: r') | None => None end
  end.

(* position j counted from the front, or (for a negative subscript) from the back *)
Definition a_position (i : Z) (l : list param) : option nat :=
  if (0 <=? i)%Z then (if Z.to_nat i <? List.length l then Some (Z.to_nat i) else None)
  else (let b := Z.to_nat (- i) in if b <=? List.length l then Some (List.length l - b) else None).

Definition a_getitem (k : key) (l : list param) : result param :=
  match k with
  | KInt i => match a_position i l with
              | Some j => match nth_error l j with Some p => Ok p | None => Err "IndexError" end
              | None => Err "IndexError"
              end
  | KStr s => match find (name_is (lstrip_star s)) l with Some p => Ok p | None => Err "KeyError" end
  end.

Definition a_setitem (k : key) (p : param) (l : list param) : result (list param) :=
  match k with
  | KInt i => match a_position i l with
              | Some j => Ok (firstn j l ++ p :: skipn (S j) l)
              | None => Err "IndexError"
              end
  | KStr s => match replace_first (name_is (lstrip_star s)) p l with
              | Some l' => Ok l'
              | None => Ok (l ++ [p])
              end
  end.

Definition a_delitem (k : key) (l : list param) : result (list param) :=
  match k with
  | KInt i => match a_position i l with
              | Some j => Ok (firstn j l ++ skipn (S j) l)
              | None => Err "IndexError"
              end
  | KStr s => match remove_first (name_is (lstrip_star s)) l with
              | Some l' => Ok l'
              | None => Err "KeyError"
              end
  end.

Definition a_contains (s : string) (l : list param) : bool := existsb (name_is (lstrip_star s)) l.

Definition a_add (p : param) (l : list param) : result (list param) :=
  if a_contains (pname p) l then Err "ValueError" else Ok (l ++ [p]).

(* ---------- operation sequences ---------- *)
Inductive op :=
| OGet (k : key) | OSet (k : key) (p : param) | ODel (k : key)
| OLen | OIter | OContains (s : string) | OAdd (p : param).

Inductive obs :=
| BParam (r : result param)          (* getitem *)
| BUnit (e : option string)          (* setitem / delitem / add: None = done, Some e = raised e *)
| BLen (n : nat) | BIter (l : list param) | BBool (b : bool).

Definition upd (l : list param) (r : result (list param)) : list param * obs :=
  match r with Ok l' => (l', BUnit None) | Err e => (l, BUnit (Some e)) end.

Definition c_step (l : list param) (o : op) : list param * obs :=
  match o with
  | OGet k => (l, BParam (c_getitem k l))
  | OSet k p => upd l (c_setitem k p l)
  | ODel k => upd l (c_delitem k l)
  | OLen => (l, BLen (List.length l))
  | OIter => (l, BIter l)
  | OContains s => (l, BBool (c_contains s l))
  | OAdd p => upd l (c_add p l)
  end.

Definition a_step (l : list param) (o : op) : list param * obs :=
  match o with
  | OGet k => (l, BParam (a_getitem k l))
  | OSet k p => upd l (a_setitem k p l)
  | ODel k => upd l (a_delitem k l)
  | OLen => (l, BLen (List.length l))
  | OIter => (l, BIter l)
  | OContains s => (l, BBool (a_contains s l))
  | OAdd p => upd l (a_add p l)
  end.

Fixpoint run_ops (step : list param -> op -> list param * obs) (l : list param) (os : list op) : list obs * list param :=
  match os with
  | [] => ([], l)
  | o :: r => let '(l', b) := step l o in let '(bs, lf) := run_ops step l' r in (b :: bs, lf)
  end.

(* ---------- CPython's views of a signature ---------- *)
(* inspect._signature_bound_method: what inspect.signature reports for a bound method / a classmethod *)
Definition cpython_bound (ps : list param) : result (list param) :=
  match ps with
  | [] => Err "ValueError"
  | p :: r => match pkind p with
              | PO | PK => Ok r
              | VP => Ok ps
              | KO | VK => Err "ValueError"
              end
  end.

(* Signature.parameters is an ordered mapping keyed by the exact name *)
Definition cpython_by_name (n : string) (ps : list param) : option param := find (name_is n) ps.

(* how a first-parameter-dropping tool obtains the bound view from the container *)
Definition griffe_bound (ps : list param) : result (list param) :=
  match ps with
  | [] => Err "ValueError"
  | p :: _ => match pkind p with
              | PO | PK => c_delitem (KInt 0) ps
              | VP => Ok ps
              | KO | VK => Err "ValueError"
              end
  end.

Definition names_of (ps : list param) : list string := map pname ps.
Fixpoint nodupb (l : list string) : bool :=
  match l with [] => true | x :: r => negb (existsb (String.eqb x) r) && nodupb r end.
Definition no_star (s : string) : bool := String.eqb (lstrip_star s) s.

(* ---------- s-expression interface ---------- *)
Definition dec_kind (s : sexp) : option kind :=
  match s with
  | SStr k => if String.eqb k "PO" then Some PO else if String.eqb k "PK" then Some PK else
              if String.eqb k "VP" then Some VP else if String.eqb k "KO" then Some KO else
              if String.eqb k "VK" then Some VK else None
  | _ => None
  end.
Definition dec_dflt (s : sexp) : option dflt :=
  match s with
  | SList [] => Some DNone
  | SList [SInt 0; SInt e] => Some (DExpr e)
  | SList [SInt 1; SStr t] => Some (DStr t)
  | _ => None
  end.
(* same shape as enc_param; the trailing required flag is ignored on input *)
Definition dec_param (s : sexp) : option param :=
  match s with
  | SList (SStr n :: a :: k :: d :: _) =>
      do a' <- as_opt as_int a; do k' <- dec_kind k; do d' <- dec_dflt d; Some (mkParam n a' k' d')
  | _ => None
  end.
Definition dec_key (s : sexp) : option key :=
  match s with SInt i => Some (KInt i) | SStr t => Some (KStr t) | _ => None end.
Definition dec_op (s : sexp) : option op :=
  match s with
  | SList [SStr "get"; k] => do k' <- dec_key k; Some (OGet k')
  | SList [SStr "set"; k; p] => do k' <- dec_key k; do p' <- dec_param p; Some (OSet k' p')
  | SList [SStr "del"; k] => do k' <- dec_key k; Some (ODel k')
  | SList [SStr "len"] => Some OLen
  | SList [SStr "iter"] => Some OIter
  | SList [SStr "in"; SStr t] => Some (OContains t)
  | SList [SStr "add"; p] => do p' <- dec_param p; Some (OAdd p')
  | _ => None
  end.
Definition enc_obs (b : obs) : sexp :=
  match b with
  | BParam (Ok p) => SList [SStr "ok"; enc_param p]
  | BParam (Err e) => SList [SStr "err"; SStr e]
  | BUnit None => SList [SStr "ok"]
  | BUnit (Some e) => SList [SStr "err"; SStr e]
  | BLen n => SList [SStr "len"; of_nat n]
  | BIter l => SList [SStr "iter"; SList (map enc_param l)]
  | BBool b => SList [SStr "bool"; of_bool b]
  end.
Definition enc_run (r : list obs * list param) : sexp :=
  SList [SList (map enc_obs (fst r)); SList (map enc_param (snd r))].

Definition run_container (s : sexp) : sexp :=
  match s with
  | SList [SStr "ops"; l; os] =>
      match as_list_of dec_param l, as_list_of dec_op os with
      | Some l', Some os' => enc_run (run_ops c_step l' os')
      | _, _ => bad_input
      end
  | SList [SStr "ops-spec"; l; os] =>
      match as_list_of dec_param l, as_list_of dec_op os with
      | Some l', Some os' => enc_run (run_ops a_step l' os')
      | _, _ => bad_input
      end
  | SList [SStr "bound"; l] =>
      match as_list_of dec_param l with
      | Some l' => SList [enc_result (griffe_bound l'); enc_result (cpython_bound l')]
      | None => bad_input
      end
  | _ => bad_input
  end.
