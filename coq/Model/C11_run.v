(* C11: the function the harness extracts.  The traversal is the one driven by the definitions regenerated from diff.py /
   mixins.py (Model/C11_dispatch.v: fbc_g, breakages_g; Proofs/C11_ladder.v proves them equal to fbc / breakages).
   "diff": two stores abstracted from the loaded trees (alias targets and inherited members as Griffe answers them);
   "ediff": two raw stores (declared structure + alias target paths + base paths) elaborated inside Coq (Model/C11_elab.v);
   "public" / "names": Model/C11_apidiff.v's run_C11. *)
From Coq Require Import List Arith Bool ZArith String Ascii.
From Verif Require Import Lib.Sexp Model.C10_kinds Gen.C10_tables Model.C10_diff Model.C11_apidiff Model.C11_dispatch Model.C11_elab.
Import ListNotations.
Open Scope string_scope. Open Scope list_scope. Open Scope nat_scope.

Definition run_C11x (s : sexp) : sexp :=
  match s with
  | SList [SStr "diff"; o; n; ri; rj] =>
      match dec_store o, dec_store n, as_nat ri, as_nat rj with
      | Some go, Some gn, Some ri', Some rj' =>
          let r := fbc_g go gn (default_fuel go gn) ri' rj' in
          let flags := SList [of_bool (wf_store go && wf_store gn); of_nat (check_exit_g go gn r)] in
          match r with
          | Ok seen log => SList [SStr "ok"; SList (map enc_breakage (breakages_g go gn log)); flags; SList (map enc_ev log)]
          | ErrBad => SList [SStr "bad-store"; SList []; flags; SList []]
          | OutOfFuel => SList [SStr "out-of-fuel"; SList []; flags; SList []]
          end
      | _, _, _, _ => bad_input end
  | SList [SStr "ediff"; o; n; ri; rj] =>
      match dec_rstore o, dec_rstore n, as_nat ri, as_nat rj with
      | Some ro, Some rn, Some ri', Some rj' =>
          let go := elab ro in
          let gn := elab rn in
          let r := fbc_g go gn (default_fuel go gn) ri' rj' in
          let flags := SList [of_bool (rwf ro && rwf rn); of_bool (wf_store go && wf_store gn); of_nat (check_exit_g go gn r)] in
          let views := SList [enc_views ro; enc_views rn; enc_extra ro; enc_extra rn] in
          match r with
          | Ok seen log => SList [SStr "ok"; SList (map enc_breakage (breakages_g go gn log)); flags; views]
          | ErrBad => SList [SStr "bad-store"; SList []; flags; views]
          | OutOfFuel => SList [SStr "out-of-fuel"; SList []; flags; views]
          end
      | _, _, _, _ => bad_input end
  | _ => run_C11 s
  end.
