(* C04 model, part 3: the scope of a name written in a stubs file (.pyi) after the stubs have been merged.
   Griffe side : merger.py _merge_stubs_members at the level of names (a name the concrete object binds keeps the concrete
                 member; a name only the stubs bind is added, import aliases included -- cf. Model/C19_merge.v merge_members,
                 which describes the same loop on whole objects), loader.py _load_submodule (submodules are set as members
                 of the concrete package, last, shadowing same-named members; the stubs module object never receives them),
                 and which scope object the expressions keep: expressions of objects defined on both sides (merged
                 annotations) keep the stubs scope chain; an object declared in the stubs only is moved with set_member and
                 re-parented, so its chain ends in the merged concrete module.
   Spec side   : the reference tree -- the package whose module text is the stubs text (its module frame: the stubs'
                 members plus the submodules); resolution there is what the other parts compare with CPython.
   Executable definitions only. *)
From Coq Require Import List ZArith String Ascii Bool Arith.
From Verif Require Import Lib.Sexp Model.C04_scope Model.C04_expr.
Import ListNotations.
Open Scope string_scope.
Open Scope list_scope.
Open Scope nat_scope.

Definition with_members (f : frame) (ms : list (string * member)) : frame := mkFrame (fkind f) (fname f) ms (fparams f).

(* loader: parent_module.set_member(submodule_name, submodule) for each submodule, after the module body was visited *)
Definition attach (subs : list string) (ms : list (string * member)) : list (string * member) :=
  fold_left (fun acc s => upd s MObj acc) subs ms.

(* _merge_stubs_members, names only: C = members of the concrete object, S = members of the stubs object *)
Definition merge_ms (C S : list (string * member)) : list (string * member) :=
  C ++ filter (fun km => negb (is_some (lookup (fst km) C))) S.

(* the module frame an expression ends in: f carries kind / name of the module *)
Definition stub_frame (f : frame) (S : list (string * member)) : frame := with_members f S.
Definition merged_frame (f : frame) (subs : list string) (C S : list (string * member)) : frame :=
  with_members f (attach subs (merge_ms C S)).
Definition reference_frame (f : frame) (subs : list string) (S : list (string * member)) : frame :=
  with_members f (attach subs S).

Definition member_eqb (a b : member) : bool :=
  match a, b with MObj, MObj => true | MAlias s, MAlias t => String.eqb s t | _, _ => false end.

(* known-gap predicates (decidable), per name.
   kept scope (C04-F7): the name is a submodule and the stubs module does not itself hold an object of that name *)
Definition gap_stub_kept (subs : list string) (S : list (string * member)) (n : string) : bool :=
  mem n subs && negb (match lookup n S with Some MObj => true | _ => false end).
(* moved scope: the concrete module binds the name differently from the stubs (the concrete member wins the merge) *)
Definition gap_stub_moved (subs : list string) (C S : list (string * member)) (n : string) : bool :=
  negb (mem n subs) &&
  match lookup n C with
  | None => false
  | Some c => match lookup n S with Some s => negb (member_eqb c s) | None => true end
  end.

(* ------------------------------------------------------------------------------------------------ s-expressions *)
Definition dec_members (s : sexp) : option (list (string * member)) := as_list_of dec_member s.

Definition run_C04s (s : sexp) : sexp :=
  match s with
  (* variant, frames above the module (innermost first), module frame (kind, name), frames below (parent packages),
     submodule names, concrete members, stubs members, name, moved? *)
  | SList [SStr "stub"; v; cs; f; rest; subs; cm; sm; SStr n; moved] =>
      match dec_variant v, as_list_of dec_frame cs, dec_frame f, as_list_of dec_frame rest,
            as_list_of as_str subs, dec_members cm, dec_members sm, as_bool moved with
      | Some v', Some cs', Some f', Some rest', Some subs', Some cm', Some sm', Some mv =>
          let g := if mv then merged_frame f' subs' cm' sm' else stub_frame f' sm' in
          let r := reference_frame f' subs' sm' in
          SList [SStr (canonical_v (v_skip v') (cs' ++ g :: rest') n);
                 SStr (canonical_v (v_skip v') (cs' ++ r :: rest') n);
                 of_bool (if mv then gap_stub_moved subs' cm' sm' n else gap_stub_kept subs' sm' n);
                 enc_members (fmembers (merged_frame f' subs' cm' sm'))]
      | _, _, _, _, _, _, _, _ => bad_input
      end
  | _ => run_C04e s
  end.
