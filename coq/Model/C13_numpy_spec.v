(* C13 model, part 7: what is WRITTEN in Numpydoc style (free text, item sections, admonitions, Deprecated), how it is
   written down (render_numpy: `Title` / dash underline / items at column 0 with their description indented by four
   blanks, sections separated by a blank line), what parsing should give back (expect_numpy) and the decidable
   well-formedness predicate of the round-trip theorem.  Executable definitions only. *)
From Coq Require Import List Ascii String Bool Arith.
From Verif Require Import Model.C13_strings Model.C13_google Model.C13_google_spec Model.C13_numpy.
Import ListNotations.
Open Scope char_scope.
Open Scope list_scope.
Open Scope nat_scope.

(* one documented item.  Parameters / Other Parameters: one or more names documented together, optional type, then
   either a default (`, default V` / `, default: V` / `, default=V`) or `, optional`.  Other kinds: no name or one name. *)
Record nitem := mkNI {
  ni_names : list str;
  ni_ann : option str;
  ni_default : option (nat * str);
  ni_optional : bool;
  ni_desc : list str;               (* description lines; [] = blank line *)
  ni_sep : nat }.                   (* blank lines that set the item apart from the next one *)

Inductive nsec :=
| NText (lines : list str)
| NItems (k : kind) (header : str) (items : list nitem)
| NAdm (header : str) (lines : list str)
| NDeprecated (header : str) (version : str) (lines : list str)
(* an Examples section: chunks of prose (false) and console sessions (true), one blank line between them; trim = the
   value of trim_doctest_flags it was written for *)
| NExamples (trim : bool) (header : str) (chunks : list (bool * list str)).

Definition s_cs : str := s_of ", ".
Definition s_colon3 : str := s_of " : ".
Definition s_comma_default : str := s_of ", default".
Definition default_sep (form : nat) : str :=
  match form with 0 => s_of " " | 1 => s_of ": " | _ => s_of "=" end.

Definition ni_name (it : nitem) : str := hd [] (ni_names it).

(* the item's first line *)
Definition n_head (k : kind) (it : nitem) : str :=
  match k with
  | KParams | KOther =>
      join_with s_cs (ni_names it) ++
      match ni_ann it with
      | None => []
      | Some a => s_colon3 ++ a
                  ++ (match ni_default it with Some (f, v) => s_comma_default ++ default_sep f ++ v | None => [] end)
                  ++ (if ni_optional it then s_optional else [])
      end
  | KAttrs => ni_name it ++ match ni_ann it with Some a => s_colon3 ++ a | None => [] end
  | KFuncs | KClasses | KModules => ni_name it ++ match ni_ann it with Some a => lparen :: a ++ [rparen] | None => [] end
  | KRaises | KWarns => ostr (ni_ann it)
  | _ =>
      match ni_names it, ni_ann it with
      | [], None => [colon]
      | [], Some a => colon :: sp :: a
      | n :: _, None => n ++ [sp; colon]
      | n :: _, Some a => n ++ s_colon3 ++ a
      end
  end.

Definition n_item_lines (k : kind) (it : nitem) : list str :=
  n_head k it :: map (indent_line 4) (ni_desc it) ++ repeat [] (ni_sep it).

Definition dashes (h : str) : str := repeat dash (List.length h).

Definition render_nsec (s : nsec) : list str :=
  match s with
  | NText ls => ls
  | NItems k h its => h :: dashes h :: flat_map (n_item_lines k) its
  | NAdm h ls => h :: dashes h :: ls
  | NDeprecated h v ls => h :: dashes h :: v :: map (indent_line 4) ls
  | NExamples _ h chunks => h :: dashes h :: flatten_chunks chunks
  end.

(* sections are separated by one blank line *)
Fixpoint render_numpy (secs : list nsec) : list str :=
  match secs with
  | [] => []
  | [s] => render_nsec s
  | s :: r => render_nsec s ++ [] :: render_numpy r
  end.

(* ---- what parsing should give back *)
Definition part_of (c : pctx) (k : kind) : option rpart :=
  match k, c_ret c with
  | KReturns, RPlain p => Some p
  | KYields, RIter _ p => Some p
  | KYields, RGen _ y _ _ => Some y
  | KReceives, RGen _ _ s _ => Some s
  | _, _ => None
  end.

(* the documented fallback: the part of the parent's return annotation that the section talks about, one tuple element
   per item when several items are documented *)
Definition n_doc_fallback (c : pctx) (k : kind) (multiple : bool) (index : nat) : option str :=
  match part_of c k with
  | Some p => Some (tuple_split multiple index p)
  | None => None
  end.

Definition omap {A B} (f : A -> B) (o : option A) : option B := match o with Some x => Some (f x) | None => None end.

Definition n_expect_item (c : pctx) (k : kind) (multiple : bool) (index : nat) (it : nitem) : list pitem :=
  let d := join_nl (ni_desc it) in
  let n := ni_name it in
  match k with
  | KParams | KOther =>
      map (fun nm => mkItem (Some nm)
                            (orelse (ni_ann it) (match lookup_param c nm with Some (a, _) => a | None => None end))
                            d
                            (orelse (omap snd (ni_default it)) (match lookup_param c nm with Some (_, v) => v | None => None end)))
          (ni_names it)
  | KAttrs => [mkItem (Some n) (orelse (ni_ann it) (match lookup_attr c n with Some a => a | None => None end)) d None]
  | KFuncs | KClasses | KModules =>
      [mkItem (Some n) (match ni_ann it with Some a => Some (n ++ lparen :: a ++ [rparen]) | None => None end) d None]
  | KRaises | KWarns => [mkItem None (ni_ann it) d None]
  | _ => [mkItem (Some n) (orelse (ni_ann it) (n_doc_fallback c k multiple index)) d None]
  end.

Fixpoint n_expect_items (c : pctx) (k : kind) (multiple : bool) (index : nat) (its : list nitem) : list pitem :=
  match its with
  | [] => []
  | it :: r => n_expect_item c k multiple index it ++ n_expect_items c k multiple (S index) r
  end.

Definition n_expect_sec (c : pctx) (s : nsec) : gsec :=
  match s with
  | NText ls => GText (join_nl ls)
  | NItems k h its => GItems k None (n_expect_items c k (negb (List.length its <=? 1)) 0 its)
  | NAdm h ls => GAdm (n_adm_kind h) h (join_nl ls)
  | NDeprecated h v ls => GItems KDeprecated None [mkItem None (Some v) (join_nl ls) None]
  | NExamples trim h chunks => GExamples None (map (expect_chunk trim) chunks)
  end.

Definition expect_numpy (c : pctx) (secs : list nsec) : list gsec := map (n_expect_sec c) secs.

(* ---- well-formedness (decidable) *)
Definition last_not_space (s : str) : bool := negb (ceq (last s "x") sp).

(* a description: at least one line; the first one has text starting in its first column and is not a dash-only line
   (directly under an item's first line that reads as a section underline); blank lines are empty; the last line has
   text.  strip_end: the reader strips blanks at the end of the whole description (Parameters: rstrip(); Functions /
   Classes / Modules: strip()), so the last line must not end in one. *)
Definition wf_ndesc (strip_end : bool) (desc : list str) : bool :=
  match desc with
  | [] => false
  | d0 :: _ =>
      nonempty d0 && first_not_space d0 && negb (is_dash_line d0)
      && forallb wf_cont desc && nonempty (last desc [])
      && (if strip_end then last_not_space (last desc []) else true)
  end.

(* \*{0,2}[_a-z][_a-z0-9]* (IGNORECASE), the whole string *)
Definition strip_stars2 (n : str) : str :=
  match n with
  | c1 :: c2 :: t => if ceq c1 star && ceq c2 star then t else if ceq c1 star then c2 :: t else n
  | [c1] => if ceq c1 star then [] else n
  | [] => n
  end.
Definition wf_ident (t : str) : bool := match t with c :: r => is_name_start c && forallb is_word r | [] => false end.
Definition wf_pname (n : str) : bool := wf_ident (strip_stars2 n).

(* no comma in s is followed by what the default-value regex wants after it *)
Fixpoint no_dflt (s : str) : bool :=
  match s with
  | [] => true
  | c :: r => (if ceq c comma then match default_tail r with None => true | Some _ => false end else true) && no_dflt r
  end.

(* a line that starts in its first column *)
Definition wf_line0 (s : str) : bool := nonempty s && all_printable s && first_not_space s.
(* ... and does not end with a blank (str.strip leaves it alone) *)
Definition wf_stripped (s : str) : bool := wf_line0 s && last_not_space s.

Definition wf_param_type (it : nitem) : bool :=
  match ni_ann it with
  | None => negb (is_some (ni_default it)) && negb (ni_optional it)
  | Some a =>
      nonempty a && all_printable a && negb (ceq (hd sp a) lbrace)
      && match ni_default it with
         | Some (f, v) => negb (ni_optional it) && nonempty v && all_printable v && no_dflt v && negb (endswith s_optional a)
         | None => no_dflt (a ++ if ni_optional it then s_optional else [])
                   && (ni_optional it || negb (endswith s_optional a))
         end
  end.

Definition rkindb (k : kind) : bool := match k with KReturns | KYields | KReceives => true | _ => false end.

Definition wf_nitem (k : kind) (it : nitem) : bool :=
  match k with
  | KParams | KOther =>
      wf_ndesc true (ni_desc it)
      && match ni_names it with [] => false | _ => true end && forallb wf_pname (ni_names it) && wf_param_type it
  | KAttrs =>
      wf_ndesc false (ni_desc it)
      && match ni_names it with [n] => wf_stripped n && negb (contains_char colon n) | _ => false end
      && opt_all wf_stripped (ni_ann it) && negb (is_some (ni_default it)) && negb (ni_optional it)
  | KFuncs | KClasses | KModules =>
      wf_ndesc true (ni_desc it)
      && match ni_names it with [n] => wf_stripped n && negb (contains_char lparen n) | _ => false end
      && opt_all all_printable (ni_ann it)
      && (match k with KModules => negb (is_some (ni_ann it)) | _ => true end)
      && negb (is_some (ni_default it)) && negb (ni_optional it)
  | KRaises | KWarns =>
      wf_ndesc false (ni_desc it)
      && match ni_names it with [] => true | _ => false end
      && match ni_ann it with Some a => wf_line0 a | None => false end
      && negb (is_some (ni_default it)) && negb (ni_optional it)
  | KReturns | KYields | KReceives =>
      wf_ndesc false (ni_desc it)
      && match ni_names it with [] => true | [n] => wf_pname n | _ => false end
      && opt_all wf_line0 (ni_ann it)
      && negb (is_some (ni_default it)) && negb (ni_optional it)
  | _ => false
  end.

(* a line of free text or of an admonition body: empty, or with text; not a code fence; not a dash-only line (under a
   text line it would turn that line into a section title) *)
Definition wf_body_line (l : str) : bool :=
  all_printable l && (negb (nonempty l) || negb (is_empty_line l)) && negb (is_fence (lower l)) && negb (is_dash_line l).

(* the lines of a free text / of an admonition body with fenced code blocks: between an opening fence line and the next
   fence line anything printable goes (dash-only lines, blank lines with blanks); every fence is closed *)
Fixpoint wf_nbody_lines (incode : bool) (ls : list str) : bool :=
  match ls with
  | [] => negb incode
  | l :: r =>
      all_printable l &&
      (if incode then wf_nbody_lines (negb (is_fence (lower l))) r
       else if is_fence (lower l) then wf_nbody_lines true r
       else (negb (nonempty l) || negb (is_empty_line l)) && negb (is_dash_line l) && wf_nbody_lines false r)
  end.

Definition wf_body (ls : list str) : bool :=
  match ls with [] => false | _ => true end && wf_nbody_lines false ls && negb (is_empty_line (last ls [])).

Definition wf_nheader (h : str) : bool := wf_line0 h && negb (is_fence (lower h)).

(* when an item relies on the parent's annotation, the parent documents that part (Returns: a plain annotation,
   Yields: Iterator / Generator, Receives: Generator) and its tuple has an element for the item *)
Fixpoint wf_fallbacks (c : pctx) (k : kind) (multiple : bool) (index : nat) (its : list nitem) : bool :=
  match its with
  | [] => true
  | it :: r =>
      (match ni_ann it with
       | Some _ => true
       | None =>
           match c_ret c with
           | RNone => true
           | _ => match part_of c k with
                  | Some (RPTuple _ es) => negb multiple || (index <? List.length es)
                  | Some (RPName _) => true
                  | None => false
                  end
           end
       end) && wf_fallbacks c k multiple (S index) r
  end.

Definition wf_nsec (c : pctx) (s : nsec) : bool :=
  match s with
  | NText ls => wf_body ls
  | NItems k h its =>
      wf_nheader h
      && match n_section_kind (lower h) with Some k' => kind_eqb k k' | None => false end
      && match its with [] => false | _ => true end
      && forallb (wf_nitem k) its
      && (if rkindb k then wf_fallbacks c k (negb (List.length its <=? 1)) 0 its else true)
  | NAdm h ls =>
      wf_nheader h && match n_section_kind (lower h) with Some _ => false | None => true end && wf_body ls
  | NDeprecated h v ls =>
      wf_nheader h
      && match n_section_kind (lower h) with Some KDeprecated => true | _ => false end
      && wf_line0 v && wf_ndesc false ls
  | NExamples trim h chunks =>
      wf_nheader h
      && match n_section_kind (lower h) with Some KExamples => true | _ => false end
      && trim                                  (* the theorem is about the default options: trim_doctest_flags=True *)
      && match chunks with [] => false | _ => true end
      && forallb wf_chunk chunks && no_adjacent_prose chunks
      && forallb (fun l => negb (is_dash_line l)) (flatten_chunks chunks)
  end.

Definition n_is_text (s : nsec) : bool := match s with NText _ => true | _ => false end.

(* free text comes first (what follows a section belongs to that section) *)
Definition wf_nsecs (c : pctx) (secs : list nsec) : bool :=
  forallb (wf_nsec c) secs && forallb (fun s => negb (n_is_text s)) (tl secs).

(* ---- the known gap C13-F6: a single Yields / Receives item without type whose parent part is a tuple gets the
   first tuple element instead of the tuple *)
Definition gap_F6_sec (c : pctx) (s : nsec) : bool :=
  match s with
  | NItems k _ [it] =>
      match k with
      | KYields | KReceives =>
          negb (is_some (ni_ann it)) && match part_of c k with Some (RPTuple _ _) => true | _ => false end
      | _ => false
      end
  | _ => false
  end.

Definition gap_F6 (c : pctx) (secs : list nsec) : bool := existsb (gap_F6_sec c) secs.
