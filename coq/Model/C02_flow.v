(* C02 model: the visitor is flow-insensitive (it walks every branch), CPython runs the live statements only.
   [dead_ok] decides, along Griffe's own run, whether the statements CPython does not execute are invisible in the
   result: a name touched by dead code is "dirty" until a live definition re-binds it whatever it was bound to,
   and in between its pending overloads must be what they would be without the dead code.
   Executable definitions only. *)
From Coq Require Import List ZArith String Bool Arith.
From Verif Require Import Lib.Sexp Model.C02_kinds Gen.C02_tables Model.C02_scope.
Import ListNotations.
Open Scope string_scope.
Open Scope list_scope.

Fixpoint zlist_eqb (a b : list Z) : bool :=
  match a, b with
  | [], [] => true
  | x :: r, y :: s => Z.eqb x y && zlist_eqb r s
  | _, _ => false
  end.

(* a statement of the body, tagged: true = CPython executes it *)
Definition all_items (its : list (bool * item)) : list item := map snd its.
Definition live_items (its : list (bool * item)) : list item := map snd (filter fst its).
(* the outcomes of the live statements, out of the log of the whole run *)
Fixpoint live_log (its : list (bool * item)) (log : list outcome) : list outcome :=
  match its, log with
  | (b, _) :: r, o :: lr => if b then o :: live_log r lr else live_log r lr
  | _, _ => []
  end.

(* dirty names, each with the pending overloads it has in the run without the dead code *)
Definition dirty := list (string * list Z).

Fixpoint dead_ok (D : dirty) (its : list (bool * item)) (sG : scope) : bool :=
  match its with
  | [] => match D with [] => true | _ => false end
  | (false, it) :: r =>
      let n := iname it in
      dead_ok (match lookup n D with Some _ => D | None => assign n (buf n sG) D end) r (step sG it)
  | (true, it) :: r =>
      let n := iname it in
      match lookup n D with
      | None => dead_ok D r (step sG it)
      | Some b =>
          if zlist_eqb (buf n sG) b then
            match it with
            | IDef f =>
                if plain_overload_b f then dead_ok (assign n (buf n (step sG it)) D) r (step sG it)
                else if unconditional_binder it then dead_ok (remove_key n D) r (step sG it)
                else false
            | IBind _ _ => dead_ok (remove_key n D) r (step sG it)
            end
          else false
      end
  end.

(* ---------- s-expression interface ---------- *)
Definition dec_titem (s : sexp) : option (bool * item) :=
  match s with
  | SList [b; it] => do b' <- as_bool b; do it' <- dec_item it; Some (b', it')
  | _ => None
  end.

Definition run_flow (s : sexp) : sexp :=
  match s with
  | SList [SStr "flow"; its] =>
      match as_list_of dec_titem its with
      | Some its' => of_bool (dead_ok [] its' (mkScope true [] []))
      | None => bad_input
      end
  | _ => bad_input
  end.
