(* C03 — s-expression codec and [run_C03].  Executable definitions only. *)
From Coq Require Import List ZArith String Ascii Bool Arith.
From Verif Require Import Lib.Sexp Model.C03_ops Gen.C03_tables Model.C03_expr Model.C03_spec.
Import ListNotations.
Open Scope string_scope. Open Scope list_scope. Open Scope nat_scope.

Definition dec_unop (s : string) : option unop :=
  if String.eqb s "Invert" then Some U_Invert else if String.eqb s "Not" then Some U_Not
  else if String.eqb s "UAdd" then Some U_UAdd else if String.eqb s "USub" then Some U_USub else None.
Definition dec_binop (s : string) : option binop :=
  if String.eqb s "Add" then Some B_Add else if String.eqb s "Sub" then Some B_Sub
  else if String.eqb s "Mult" then Some B_Mult else if String.eqb s "MatMult" then Some B_MatMult
  else if String.eqb s "Div" then Some B_Div else if String.eqb s "Mod" then Some B_Mod
  else if String.eqb s "Pow" then Some B_Pow else if String.eqb s "LShift" then Some B_LShift
  else if String.eqb s "RShift" then Some B_RShift else if String.eqb s "BitOr" then Some B_BitOr
  else if String.eqb s "BitXor" then Some B_BitXor else if String.eqb s "BitAnd" then Some B_BitAnd
  else if String.eqb s "FloorDiv" then Some B_FloorDiv else None.
Definition dec_boolop (s : string) : option boolop :=
  if String.eqb s "And" then Some L_And else if String.eqb s "Or" then Some L_Or else None.
Definition dec_cmpop (s : string) : option cmpop :=
  if String.eqb s "Eq" then Some C_Eq else if String.eqb s "NotEq" then Some C_NotEq
  else if String.eqb s "Lt" then Some C_Lt else if String.eqb s "LtE" then Some C_LtE
  else if String.eqb s "Gt" then Some C_Gt else if String.eqb s "GtE" then Some C_GtE
  else if String.eqb s "Is" then Some C_Is else if String.eqb s "IsNot" then Some C_IsNot
  else if String.eqb s "In" then Some C_In else if String.eqb s "NotIn" then Some C_NotIn else None.

Definition dec_ostr (s : sexp) : option (option string) := as_opt as_str s.

(* (tag fields...) with numeric tags; lists are SList, options are () / (x) *)
Fixpoint dec (s : sexp) {struct s} : option pyexpr :=
  let dl := fun (x : sexp) => match x with SList l => mapo dec l | _ => None end in
  let dopt := fun (x : sexp) =>
    match x with
    | SList [] => Some None
    | SList [y] => match dec y with Some e => Some (Some e) | None => None end
    | _ => None
    end in
  match s with
  | SList (SInt tag :: args) =>
      match tag, args with
      | 1%Z, [SStr id; SInt l] => Some (PName id (negb (l =? 0)%Z))
      | 2%Z, [SInt b; SStr r] => Some (PNum (negb (b =? 0)%Z) r)
      | 3%Z, [SStr r] => Some (PConst r)
      | 4%Z, [SStr r; SStr raw; p] => do p' <- dopt p; Some (PStr r raw p')
      | 5%Z, [v; SStr a] => do v' <- dec v; Some (PAttribute v' a)
      | 6%Z, [l; SStr o; r] => do l' <- dec l; do o' <- dec_binop o; do r' <- dec r; Some (PBinOp l' o' r')
      | 7%Z, [SStr o; vs] => do o' <- dec_boolop o; do vs' <- dl vs; Some (PBoolOp o' vs')
      | 8%Z, [SStr o; v] => do o' <- dec_unop o; do v' <- dec v; Some (PUnaryOp o' v')
      | 9%Z, [l; ops; cs] =>
          do l' <- dec l; do ops' <- as_list_of (fun x => do n <- as_str x; dec_cmpop n) ops; do cs' <- dl cs;
          Some (PCompare l' ops' cs')
      | 10%Z, [f; a; k] => do f' <- dec f; do a' <- dl a; do k' <- dl k; Some (PCall f' a' k')
      | 11%Z, [n; v] => do n' <- dec_ostr n; do v' <- dec v; Some (PKeyword n' v')
      | 12%Z, [v; SInt lit; sl] => do v' <- dec v; do sl' <- dec sl; Some (PSubscript v' (negb (lit =? 0)%Z) sl')
      | 13%Z, [a; b; c] => do a' <- dopt a; do b' <- dopt b; do c' <- dopt c; Some (PSlice a' b' c')
      | 14%Z, [es] => do es' <- dl es; Some (PTuple es')
      | 15%Z, [es] => do es' <- dl es; Some (PList es')
      | 16%Z, [es] => do es' <- dl es; Some (PSet es')
      | 17%Z, [es] => do es' <- dl es; Some (PDict es')
      | 18%Z, [k; v] => do k' <- dopt k; do v' <- dec v; Some (PDictItem k' v')
      | 19%Z, [a; b; c] => do a' <- dec a; do b' <- dec b; do c' <- dec c; Some (PIfExp a' b' c')
      | 20%Z, [po; pk; vp; ko; vk; body] =>
          do po' <- dl po; do pk' <- dl pk; do vp' <- dec_ostr vp; do ko' <- dl ko; do vk' <- dec_ostr vk;
          do b' <- dec body; Some (PLambda po' pk' vp' ko' vk' b')
      | 21%Z, [SStr n; d] => do d' <- dopt d; Some (PParam n d')
      | 22%Z, [t; v] => do t' <- dec t; do v' <- dec v; Some (PNamedExpr t' v')
      | 23%Z, [v] => do v' <- dec v; Some (PStarred v')
      | 24%Z, [e; g] => do e' <- dec e; do g' <- dl g; Some (PListComp e' g')
      | 25%Z, [e; g] => do e' <- dec e; do g' <- dl g; Some (PSetComp e' g')
      | 26%Z, [e; g] => do e' <- dec e; do g' <- dl g; Some (PGeneratorExp e' g')
      | 27%Z, [k; v; g] => do k' <- dec k; do v' <- dec v; do g' <- dl g; Some (PDictComp k' v' g')
      | 28%Z, [t; it; ifs; SInt a] =>
          do t' <- dec t; do it' <- dec it; do ifs' <- dl ifs; Some (PComprehension t' it' ifs' (negb (a =? 0)%Z))
      | 29%Z, [vs] => do vs' <- dl vs; Some (PJoinedStr vs')
      | 30%Z, [v; SInt conv; sp] => do v' <- dec v; do sp' <- dopt sp; Some (PFormattedValue v' conv sp')
      | 31%Z, [v] => do v' <- dopt v; Some (PYield v')
      | 32%Z, [v] => do v' <- dec v; Some (PYieldFrom v')
      | 33%Z, [v] => do v' <- dec v; Some (PAwait v')
      | _, _ => None
      end
  | _ => None
  end.

Definition gclass (g : gexpr) : string :=
  match g with
  | GStr _ => "str" | GName _ _ => "ExprName" | GAttribute _ => "ExprAttribute" | GBinOp _ _ _ => "ExprBinOp"
  | GBoolOp _ _ => "ExprBoolOp" | GCall _ _ => "ExprCall" | GCompare _ _ _ => "ExprCompare"
  | GComprehension _ _ _ _ => "ExprComprehension" | GDict _ => "ExprDict" | GDictComp _ _ _ => "ExprDictComp"
  | GFormatted _ _ _ => "ExprFormatted" | GGeneratorExp _ _ => "ExprGeneratorExp" | GIfExp _ _ _ => "ExprIfExp"
  | GJoinedStr _ => "ExprJoinedStr" | GKeyword _ _ => "ExprKeyword" | GVarPositional _ => "ExprVarPositional"
  | GVarKeyword _ => "ExprVarKeyword" | GLambda _ _ => "ExprLambda" | GList _ => "ExprList"
  | GListComp _ _ => "ExprListComp" | GNamedExpr _ _ => "ExprNamedExpr" | GSet _ => "ExprSet"
  | GSetComp _ _ => "ExprSetComp" | GSlice _ _ _ => "ExprSlice" | GSubscript _ _ => "ExprSubscript"
  | GTuple _ _ => "ExprTuple" | GUnaryOp _ _ => "ExprUnaryOp" | GYield _ => "ExprYield" | GYieldFrom _ => "ExprYieldFrom"
  end.

Definition enc_parent (p : gparent) : sexp :=
  SStr (match p with ParScope => "scope" | ParName _ => "name" | ParStr => "str" | ParNone => "none" end).

Section Run.
Variable fx : fixes.
Variable env : nenv.

(* Expr.canonical_path: names and dotted chains resolve through the module's imports, subscripts and calls answer for their
   left part (a called constant: its text), everything else is its own text; an ExprKeyword answers `<function>(<name>)` *)
Fixpoint canon_full (g : gexpr) : string :=
  match g with
  | GStr s => s
  | GName _ _ | GAttribute _ => match gcanon env g with Some p => p | None => "" end
  | GSubscript l _ => canon_full l
  | GCall f _ => canon_full f
  | _ => render fx g
  end.
Definition item_canon (parent : gexpr) (g : gexpr) : string :=
  match g, parent with
  | GKeyword n _, GCall f _ => canon_full f ++ "(" ++ n ++ ")"
  | _, _ => canon_full g
  end.

(* Expr.modernize(): no class of this version overrides the base method *)
Definition modernize (g : gexpr) : gexpr := g.

(* flat pieces: (0 text) | (1 name parent-kind path) ; one-layer pieces: (0 text) | (2 class rendered canonical-path) *)
Definition enc_item (i : item) : sexp :=
  match i with
  | IStr s => SList [SInt 0; SStr s]
  | IExpr (GName n p) => SList [SInt 1; SStr n; enc_parent p; SStr (gname_path (GName n p))]
  | IExpr g => SList [SInt 2; SStr (gclass g); SStr (render fx g)]
  end.
Definition enc_item1 (parent : gexpr) (i : item) : sexp :=
  match i with
  | IStr s => SList [SInt 0; SStr s]
  | IExpr g => SList [SInt 2; SStr (gclass g); SStr (render fx g); SStr (item_canon parent g)]
  end.
(* the elements of a dotted chain: each name's canonical path continues the previous one's *)
Fixpoint chain_canons (prev : string) (vs : list gexpr) : list string :=
  match vs with
  | [] => []
  | v :: r =>
      let c := match v with GName _ _ => gname_canon env prev v | _ => canon_full v end in
      (match v with GStr _ => [] | _ => [c] end) ++ chain_canons c r
  end.
Fixpoint enc_chain (items : list item) (cs : list string) : list sexp :=
  match items with
  | [] => []
  | IStr s :: r => SList [SInt 0; SStr s] :: enc_chain r cs
  | IExpr g :: r =>
      SList [SInt 2; SStr (gclass g); SStr (render fx g); SStr (match cs with c :: _ => c | [] => "" end)]
      :: enc_chain r (match cs with _ :: cs' => cs' | [] => [] end)
  end.
Definition enc_items1 (g : gexpr) : list sexp :=
  match g with
  | GAttribute vs => enc_chain (iterate fx false g) (chain_canons "" vs)
  | _ => map (enc_item1 g) (iterate fx false g)
  end.

Definition run_one (top parse : Z) (e : pyexpr) : sexp :=
  let m := if (parse =? 0)%Z then NoParse else Parse false in
  let topn := Z.to_nat top in
  let e' := subst fx env m false false e in
  let b := build fx env (mkCtx m false false false) e in
  let b' := build fx env ctx0 e' in
  SList [of_bool (wf e && wf e'); of_bool (no_parsed e);
         of_opt (fun g => SList [SStr (render fx g); SStr (gclass g);
                                 SList (map enc_item (iterate fx true g)); SList (enc_items1 g);
                                 SStr (canon_full g); SStr (render fx (modernize g));
                                 (* the recursive one-layer walk of a renderer (fuel 400): did it end, and its pieces *)
                                 of_bool (forallb is_pieceb (rwalk fx 400 g)); SList (map enc_item (rwalk fx 400 g))]) b;
         SStr (ref_top topn e');
         SList (map of_nat (gaps_top fx topn e' ++ (if rule_ok (fx_litroot fx) e || negb (no_parsed e) then [] else [11])));
         SList (map SStr (src_names e'));
         of_bool (ref_unsupported e');
         of_opt (fun g => SStr (render fx g)) b';
         of_bool (drops fx e');
         of_bool (lits_agree env e);
         of_bool (scope_ok [] e)].
End Run.

Definition dec_env (s : sexp) : option nenv :=
  as_list_of (fun x => match x with SList [SStr k; SStr v] => Some (k, v) | _ => None end) s.

Definition enc_fixes (f : fixes) : sexp :=
  SList (map of_bool [fx_prec f; fx_lambda f; fx_tuple0 f; fx_intattr f; fx_genexp f; fx_fconv f; fx_fesc f; fx_fglue f;
                      fx_fnest f; fx_litroot f]).

(* ("run" top parse env e):
     top   = minimal precedence of the storing position (3: assignment value, 4: everything else)
     parse = 1 when string annotations are parsed at this position (parse_strings=True)
     env   = ((name path) ...) the bindings of the module's import statements
   result: (wf no_parsed build rprint gaps names ref_unsupported render-of-substituted drops lits_agree scope_ok)
     build = () when _build raises, else ((str class flat-pieces one-layer-pieces canonical_path str-of-modernize
             recursive-walk-ended recursive-walk-pieces))
   ("fixes"): the repairs the translator found in the tree under test *)
Definition run_C03 (s : sexp) : sexp :=
  match s with
  | SList [SStr "run"; SInt top; SInt parse; envs; x] =>
      match dec_env envs, dec x with
      | Some env, Some e => run_one tree_fixes env top parse e
      | _, _ => bad_input
      end
  | SList [SStr "fixes"] => enc_fixes tree_fixes
  | _ => bad_input
  end.
