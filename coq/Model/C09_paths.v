(* C09 -- the path-valued fields of a full dump are DERIVED here instead of being inputs:
   models.py Object.filepath / relative_filepath / relative_package_filepath (pathlib's PurePosixPath.relative_to,
   .parent), evaluated in the order Object.as_dict(full=True) evaluates them (self first, then members in order),
   with Python exceptions as explicit Raised results.
   Input tree `pobj`: only modules carry a file path (Module._filepath: one file, a list of directories for a
   namespace (sub)package, None for builtin modules); every other object inherits the one of its module; the
   package is the top of the dumped tree.  `dump cwd t` = derive the three path fields of every object, then
   `enc_full` (Model/C09_enc.v).
   Executable definitions only. *)
From Coq Require Import List ZArith String Ascii Bool Arith.
From Verif Require Import Lib.Sexp Model.C09_json Gen.C09_schema Model.C09_enc.
Import ListNotations.
Open Scope string_scope.
Open Scope list_scope.
Open Scope nat_scope.

(* ---------- absolute POSIX paths as component lists; [] is "/" ---------- *)

Definition path := list string.

Fixpoint strip_prefix (base p : path) : option path :=
  match base, p with
  | [], _ => Some p
  | b :: base', c :: p' => if String.eqb b c then strip_prefix base' p' else None
  | _ :: _, [] => None
  end.

(* PurePosixPath.relative_to(base): Some rest, or None for ValueError *)
Definition relative_to (p base : path) : option path := strip_prefix base p.

(* PurePosixPath.parent (the parent of the root is the root) *)
Definition parent (p : path) : path := removelast p.

Definition is_below (dir p : path) : bool := match relative_to p dir with Some _ => true | None => false end.

Fixpoint first_some {A B} (f : A -> option B) (l : list A) : option B :=
  match l with
  | [] => None
  | x :: r => match f x with Some y => Some y | None => first_some f r end
  end.

Fixpoint join (sep : string) (l : list string) : string :=
  match l with
  | [] => ""
  | [x] => x
  | x :: r => x ++ sep ++ join sep r
  end.

(* str(path) *)
Definition render_abs (p : path) : string := "/" ++ join "/" p.
Definition render_rel (p : path) : string := match p with [] => "." | _ => join "/" p end.

(* ---------- Module._filepath ---------- *)

Inductive mfp := MOne (p : path) | MList (l : list path).

(* per object of the tree: a module's own file path, a builtin module (None), or "not a module" *)
Inductive pfp := POwn (f : mfp) | PBuiltin | PInherit.

Inductive perr :=
| ErrBuiltin              (* BuiltinModuleError from Module.filepath *)
| ErrRelFilepath          (* IndexError: `self.filepath[0]` of a namespace package without any directory (the finder never builds one) *)
| ErrRelPackageFilepath   (* ValueError from relative_package_filepath (bare `raise ValueError` or relative_to) *)
| ErrNotSerializable.     (* TypeError from json.dumps: an object without encoding rule (after as_dict succeeded everywhere) *)

Inductive res (A : Type) := Done (a : A) | Raised (e : perr).
Arguments Done {A} a.
Arguments Raised {A} e.

Definition render_fp (f : mfp) : fpath :=
  match f with MOne p => FPOne (render_abs p) | MList l => FPList (map render_abs l) end.

(* Object.relative_filepath: relative to the cwd when below it (a namespace package: its first directory that is), else the
   absolute path (a namespace package: its first directory; since fix bb0db70, ValueError before) *)
Definition rel_filepath (cwd : path) (f : mfp) : res string :=
  match f with
  | MList l => match first_some (fun p => relative_to p cwd) l with
               | Some r => Done (render_rel r)
               | None => match l with d :: _ => Done (render_abs d) | [] => Raised ErrRelFilepath end
               end
  | MOne p => match relative_to p cwd with
              | Some r => Done (render_rel r)
              | None => Done (render_abs p)
              end
  end.

(* Object.relative_package_filepath, the four branches in source order *)
Definition rel_package_filepath_opt (pkg f : mfp) : option path :=
  match f, pkg with
  | MList selfl, MList pkgl => first_some (fun pk => first_some (fun s => relative_to s (parent pk)) selfl) pkgl
  | MList selfl, MOne pk => first_some (fun s => relative_to s (parent (parent pk))) selfl
  | MOne p, MList pkgl => first_some (fun pk => relative_to p (parent pk)) pkgl
  | MOne p, MOne pk => relative_to p (parent (parent pk))
  end.

Definition rel_package_filepath (pkg f : mfp) : res string :=
  match rel_package_filepath_opt pkg f with Some r => Done (render_rel r) | None => Raised ErrRelPackageFilepath end.

(* ---------- the tree before path derivation ---------- *)

Inductive pobj :=
| PAlias (name target_path path : string) (lineno endlineno : option Z)
| PObj (spec : kindspec) (name path : string) (fp : pfp)
       (lineno endlineno : option Z) (doc : option docstring) (labels : list string)
       (members : list (string * pobj)).

(* file path an object reports: its own if it is a module, else that of the enclosing module *)
Definition effective (cur : option mfp) (fp : pfp) : option mfp :=
  match fp with POwn f => Some f | PBuiltin => None | PInherit => cur end.

(* members in order, first error wins (dict comprehension in Object.as_dict) *)
Fixpoint derive (cwd : path) (pkg : mfp) (cur : option mfp) (t : pobj) : res obj :=
  match t with
  | PAlias name target path lineno endlineno => Done (OAlias name target path lineno endlineno)
  | PObj spec name path fp lineno endlineno doc labels members =>
      match effective cur fp with
      | None => Raised ErrBuiltin
      | Some f =>
          match rel_filepath cwd f with
          | Raised e => Raised e
          | Done relf =>
              match rel_package_filepath pkg f with
              | Raised e => Raised e
              | Done relpf =>
                  match (fix go (l : list (string * pobj)) : res (list (string * obj)) :=
                           match l with
                           | [] => Done []
                           | (n, m) :: r =>
                               match derive cwd pkg (Some f) m with
                               | Raised e => Raised e
                               | Done m' => match go r with Raised e => Raised e | Done r' => Done ((n, m') :: r') end
                               end
                           end) members with
                  | Raised e => Raised e
                  | Done ms => Done (OObj spec name path (render_fp f) relf relpf lineno endlineno doc labels ms)
                  end
              end
          end
      end
  end.

(* the package is the top of the tree: `self.package.filepath` *)
Definition top_fp (t : pobj) : option pfp :=
  match t with PObj _ _ _ fp _ _ _ _ _ => Some fp | PAlias _ _ _ _ _ => None end.

Definition derive_top (cwd : path) (t : pobj) : res obj :=
  match t with
  | PAlias name target path lineno endlineno => Done (OAlias name target path lineno endlineno)
  | PObj _ _ _ (POwn f) _ _ _ _ _ => derive cwd f None t
  | PObj _ _ _ _ _ _ _ _ _ => Raised ErrBuiltin
  end.

(* as_json = json.dumps(self, cls=JSONEncoder): as_dict of the whole tree first (path errors), then the encoding of the
   leaves (TypeError for an object without rule) *)
Definition dump (cwd : path) (t : pobj) : res json :=
  match derive_top cwd t with
  | Done o => if has_object o then Raised ErrNotSerializable else Done (enc_full o)
  | Raised e => Raised e
  end.

Fixpoint phas_object (t : pobj) : bool :=
  match t with
  | PAlias _ _ _ _ _ => false
  | PObj spec _ _ _ _ _ _ _ members => spec_has_object spec || existsb (fun nm => phas_object (snd nm)) members
  end.

(* ---------- domain predicates ---------- *)

(* loadable minus the file-path test (which `derive` decides) *)
Fixpoint ploadable (t : pobj) : bool :=
  match t with
  | PAlias _ _ _ _ _ => true
  | PObj spec _ _ _ _ _ doc _ members =>
      spec_ok spec && optdoc_ok doc && forallb (fun nm => ploadable (snd nm)) members
  end.

(* no builtin module, and the top is a module with a file path *)
Fixpoint no_builtin (t : pobj) : bool :=
  match t with
  | PAlias _ _ _ _ _ => true
  | PObj _ _ _ fp _ _ _ _ members =>
      match fp with PBuiltin => false | _ => true end && forallb (fun nm => no_builtin (snd nm)) members
  end.

(* the directories the loader iterates to find the submodules of a package: the directory of a regular package's
   __init__ file (or of a single-file module), the portions of a namespace package *)
Definition pkg_dirs (pkg : mfp) : list path :=
  match pkg with MOne p => [parent p] | MList l => l end.

(* a module file (or one of a namespace subpackage's directories) lies below one of the package's directories *)
Definition under_pkg (dirs : list path) (f : mfp) : bool :=
  match f with
  | MOne p => existsb (fun d => is_below d p) dirs
  | MList l => existsb (fun s => existsb (fun d => is_below d s) dirs) l
  end.

Fixpoint placed (dirs : list path) (t : pobj) : bool :=
  match t with
  | PAlias _ _ _ _ _ => true
  | PObj _ _ _ fp _ _ _ _ members =>
      match fp with POwn f => under_pkg dirs f | _ => true end && forallb (fun nm => placed dirs (snd nm)) members
  end.

Definition placed_top (t : pobj) : bool :=
  match t with
  | PObj _ _ _ (POwn f) _ _ _ _ members => forallb (fun nm => placed (pkg_dirs f) (snd nm)) members
                                           && match f with MList [] => false | _ => true end
  | PObj _ _ _ _ _ _ _ _ _ => false
  | PAlias _ _ _ _ _ => true
  end.

(* C09-F7: a module file that is not below any directory of its package (a module that only exists in a stubs-only
   package found on another search path) *)
Definition f7_gap (t : pobj) : bool := negb (placed_top t).

(* how the loader places what it discovers: file <i-th package directory>/<rel>, namespace subpackage = one
   directory <i-th package directory>/<rel> per listed portion *)
Definition place_file (dirs : list path) (i : nat) (rel : path) : mfp := MOne (nth i dirs [] ++ rel).
Definition place_dirs (dirs : list path) (idx : list nat) (rel : path) : mfp := MList (map (fun i => nth i dirs [] ++ rel) idx).

(* ---------- sexp codecs ---------- *)

Definition path_of (s : sexp) : option path := as_list_of as_str s.

Definition mfp_of (s : sexp) : option mfp :=
  match s with
  | SList [SStr "one"; p] => option_map MOne (path_of p)
  | SList [SStr "list"; l] => option_map MList (as_list_of path_of l)
  | _ => None
  end.

Definition pfp_of (s : sexp) : option pfp :=
  match s with
  | SList [SStr "own"; f] => option_map POwn (mfp_of f)
  | SList [SStr "builtin"] => Some PBuiltin
  | SList [SStr "inherit"] => Some PInherit
  | _ => None
  end.

Fixpoint pobj_of (s : sexp) : option pobj :=
  match s with
  | SList [SStr "alias"; SStr name; SStr target; SStr path; l; e] =>
      do l' <- as_optz l; do e' <- as_optz e; Some (PAlias name target path l' e')
  | SList [SStr "pobj"; spec; SStr name; SStr path; fp; l; e; doc; labels; SList members] =>
      do spec' <- spec_of spec; do fp' <- pfp_of fp; do l' <- as_optz l; do e' <- as_optz e;
      do doc' <- as_opt docstring_of doc; do labels' <- as_list_of as_str labels;
      do members' <- (fix go (l : list sexp) : option (list (string * pobj)) :=
                        match l with
                        | [] => Some []
                        | SList [SStr n; m] :: r => match pobj_of m, go r with Some a, Some b => Some ((n, a) :: b) | _, _ => None end
                        | _ => None
                        end) members;
      Some (PObj spec' name path fp' l' e' doc' labels' members')
  | _ => None
  end.

Definition perr_name (e : perr) : string :=
  match e with
  | ErrBuiltin => "builtin"
  | ErrRelFilepath => "relative_filepath"
  | ErrRelPackageFilepath => "relative_package_filepath"
  | ErrNotSerializable => "not_serializable"
  end.

(* ("dump" cwd tree) -> ("ok" json loadable placed) | ("err" which loadable placed)
   ("relpath" pkg f) -> relative_package_filepath alone, ("ok" s) | ("err") *)
Definition run_paths (s : sexp) : option sexp :=
  match s with
  | SList [SStr "dump"; c; t] =>
      match path_of c, pobj_of t with
      | Some cwd, Some t' =>
          let flags := [of_bool (ploadable t'); of_bool (placed_top t')] in
          Some (match dump cwd t' with
                | Done j => SList (SStr "ok" :: sexp_of_json j :: flags)
                | Raised e => SList (SStr "err" :: SStr (perr_name e) :: flags)
                end)
      | _, _ => Some bad_input
      end
  | SList [SStr "relpath"; c; p; f] =>
      match path_of c, mfp_of p, mfp_of f with
      | Some cwd, Some pkg, Some f' =>
          Some (SList [match rel_filepath cwd f' with Done x => SList [SStr "ok"; SStr x] | Raised _ => SList [SStr "err"] end;
                       match rel_package_filepath pkg f' with Done x => SList [SStr "ok"; SStr x] | Raised _ => SList [SStr "err"] end])
      | _, _, _ => Some bad_input
      end
  | _ => None
  end.
