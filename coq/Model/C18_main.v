(* C18: the function the framework extracts.  The shape of the merging code is Gen/C18_flags.v : current_mode (regenerated
   from the tree under test on every run).  Dispatch on a leading tag:
     (table classes)                          the mode, then per class: both __init__ members, both labels, the gap flags of this mode,
                                              both presented constructors
     (layout modules queries)                 per query (module, base names): is `dataclass` recognised in that module when the event fires,
                                              does each base name resolve to its class, is `dataclass` recognised by the visitor, are field /
                                              KW_ONLY / InitVar recognised at the event, is ClassVar recognised by the visitor (Model/C18_layout.v; whether expand_wildcards ran
                                              before the event is read off the translated order of _post_load)
     (session_tv paths events final)          the same for loads in any order: each event comes with the table of its moment; per class object
                                              members["__init__"], label, and Class.parameters looked up along the FINAL MRO
     (session classes paths events dc kp)     per class object: members["__init__"] and the label after the extension object has
                                              served the events in turn (state machine of Model/C18_machine.v) *)
From Coq Require Import List Arith Bool ZArith String.
From Verif Require Import Lib.Sexp Model.C18_dataclass Model.C18_modes Model.C18_machine Model.C18_presented Model.C18_layout Gen.C18_flags.
Import ListNotations.
Open Scope string_scope.
Open Scope list_scope. Open Scope nat_scope.

Definition enc_presented (o : option (nat * init_member)) : sexp :=
  SList [of_opt of_nat (option_map fst o); SList (map enc_param (presented_params o))].

Fixpoint enc_classes2 (m : mode) (t : table) (oe : option env) (i : nat) (l : list cls) : list sexp :=
  match l with
  | [] => []
  | c :: r =>
      SList [enc_member (gm_init_member m t i c);
             match oe with Some e => enc_member (py_init_member e i c) | None => SList [SStr "rejected"] end;
             of_bool (g_label t c); of_bool (py_is_dataclass t c);
             SList (map of_bool (match oe with Some e => gaps_m m t e i c | None => [] end));
             enc_presented (gm_presented m t i c);
             match oe with Some e => enc_presented (py_presented t e i c) | None => SList [SStr "rejected"] end;
             (* gap flags of every class that can provide the presented constructor (the class and its MRO): any *)
             of_bool (match oe with
                      | Some e => existsb (fun j => match nth_error t j with
                                                    | Some b => decorated b && match c_hw b with None => known_gap_m m t e j b | Some _ => false end
                                                    | None => false end) (i :: c_mro c)
                      | None => false end)]
      :: enc_classes2 m t oe (S i) r
  end.

Fixpoint enc_objects (t : table) (st : sstate) (i : nat) (l : list cls) : list sexp :=
  match l with
  | [] => []
  | c :: r => SList [enc_member (s_member st i c); of_bool (s_labelled st i c)] :: enc_objects t st (S i) r
  end.

Definition dec_lstmt (s : sexp) : option lstmt :=
  match s with
  | SList [SStr "std"; hs] => do hs' <- as_list_of as_nat hs; Some (LStd hs')
  | SList [SStr "fromh"; m; h] => do m' <- as_nat m; do h' <- as_nat h; Some (LFromH m' h')
  | SList [SStr "from"; m; k] => do m' <- as_nat m; do k' <- as_nat k; Some (LFrom m' k')
  | SList [SStr "star"; m] => do m' <- as_nat m; Some (LStar m')
  | SList [SStr "class"; k] => do k' <- as_nat k; Some (LClass k')
  | SList [SStr "classas"; k; n] => do k' <- as_nat k; do n' <- as_nat n; Some (LClassAs k' n')
  | _ => None end.
Definition dec_lmod (s : sexp) : option lmod :=
  match s with
  | SList [st; al] => do st' <- as_list_of dec_lstmt st; do al' <- as_opt (as_list_of as_nat) al; Some (mklmod st' al')
  | _ => None end.
Definition dec_query (s : sexp) : option (nat * list nat) :=
  match s with
  | SList [m; bs] => do m' <- as_nat m; do bs' <- as_list_of as_nat bs; Some (m', bs')
  | _ => None end.

Fixpoint index_of (x : pl_step) (l : list pl_step) : nat :=
  match l with
  | [] => 0
  | y :: r => match x, y with
              | PExports, PExports | PWildcards, PWildcards | PEvent, PEvent => 0
              | _, _ => S (index_of x r)
              end
  end.
(* did expand_wildcards run before on_package_loaded is fired *)
Definition expanded_at_event : bool := Nat.ltb (index_of PWildcards post_load_steps) (index_of PEvent post_load_steps).

Definition mode_name (m : mode) : string :=
  match m with FlatFilterFirst => "FlatFilterFirst" | FlatFilterLast => "FlatFilterLast" | Accumulated => "Accumulated" end.

Definition run_C18 (s : sexp) : sexp :=
  match s with
  | SList [SStr "table"; cs] =>
      match as_list_of dec_cls cs with
      | Some t => let oe := py_eval_table t in
                  SList [of_bool (match oe with Some _ => true | None => false end); of_bool (linear t);
                         SList (enc_classes2 current_mode t oe 0 t); SStr (mode_name current_mode); of_bool (wf_mro t)]
      | None => bad_input end
  | SList [SStr "layout"; ms; qs] =>
      match as_list_of dec_lmod ms, as_list_of dec_query qs with
      | Some L, Some queries =>
          SList (map (fun q : nat * list nat =>
                        let (m, bs) := q in
                        SList [of_bool (recognised expanded_at_event L m);
                               SList (map (fun b => of_bool (base_resolves expanded_at_event L m b)) bs);
                               (* the visitor's view (labels): before any expansion *)
                               of_bool (recognised false L m);
                               of_bool (recognised_h h_field expanded_at_event L m);
                               of_bool (recognised_h h_kwonly expanded_at_event L m);
                               of_bool (recognised_h h_initvar expanded_at_event L m);
                               (* Expr.is_classvar is evaluated by the visitor: by last name, or by the one-hop canonical path *)
                               of_bool (classvar_by_last_name || recognised_h h_classvar false L m)]) queries)
      | _, _ => bad_input end
  | SList [SStr "selfres"; ms; qs] =>
      (* finding C18-F12: per query (module, class object, base name): does the base name resolve to the class itself *)
      match as_list_of dec_lmod ms, as_list_of (as_list_of as_nat) qs with
      | Some L, Some queries =>
          SList (map (fun q => match q with
                               | [m; k; n] => SList [of_bool (self_resolved expanded_at_event L m k n); of_bool (base_resolves expanded_at_event L m n)]
                               | _ => bad_input end) queries)
      | _, _ => bad_input end
  | SList [SStr "session_tv"; ps; tes; fin] =>
      (* loads in any order: (paths, [(classes as they stand at the event, classes walked)], classes after all loads) *)
      match as_list_of as_nat ps,
            as_list_of (fun te => match te with SList [cs; ev] => do t <- as_list_of dec_cls cs; do e <- as_list_of as_nat ev; Some (t, e) | _ => None end) tes,
            as_list_of dec_cls fin with
      | Some paths, Some evs, Some tfin =>
          let st := session_tv current_mode paths evs in
          SList (map (fun ic : nat * cls => let (i, c) := ic in
                        SList [enc_member (s_member st i c); of_bool (s_labelled st i c);
                               enc_presented (first_init (s_member_at st tfin) (i :: c_mro c))])
                     (combine (seq 0 (List.length tfin)) tfin))
      | _, _, _ => bad_input end
  | SList [SStr "session"; cs; ps; evs; dc; kp] =>
      match as_list_of dec_cls cs, as_list_of as_nat ps, as_list_of (as_list_of as_nat) evs, as_bool dc, as_bool kp with
      | Some t, Some paths, Some events, Some dc', Some kp' =>
          SList (enc_objects t (session_gen current_mode dc' kp' t paths events) 0 t)
      | _, _, _, _, _ => bad_input end
  | _ => bad_input
  end.
