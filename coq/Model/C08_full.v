(* C08 model, full mode with *computed* derived values (models.py: Object.filepath / relative_filepath /
   relative_package_filepath / path, Docstring.parsed without a parser, pathlib.PurePosixPath.relative_to / parent).
   The encoder [enc_fullG] is generic in how the derived values are obtained (a function of a context that is passed
   down the tree and of the object); [derive] computes them from the serialised base fields and the working directory.
   Executable definitions only. *)
From Coq Require Import List ZArith String Ascii Bool Arith.
From Verif Require Import Lib.Sexp Gen.C08_tables Model.C08_json.
Import ListNotations.
Open Scope string_scope.
Open Scope list_scope.
Open Scope nat_scope.

(* ------------------------------------------------------------------------------------------------ *)
(* 1. Pure POSIX paths on normalised strings (str(Path) of a pathlib path)                            *)

Definition slash : ascii := ascii_of_nat 47.

(* str.split(c) *)
Fixpoint split_on (c : ascii) (s : string) : list string :=
  match s with
  | EmptyString => [EmptyString]
  | String a r => if Ascii.eqb a c then EmptyString :: split_on c r
                  else match split_on c r with
                       | h :: t => String a h :: t
                       | [] => [String a EmptyString]
                       end
  end.
Fixpoint join_with (sep : string) (l : list string) : string :=
  match l with
  | [] => EmptyString
  | [x] => x
  | x :: r => append x (append sep (join_with sep r))
  end.

Definition starts_slash (s : string) : bool := match s with String c _ => Ascii.eqb c slash | EmptyString => false end.
Definition real_segment (x : string) : bool := negb (is_empty x) && negb (String.eqb x ".").

(* PurePosixPath(s).parts: the root is the part "/", empty and "." segments are dropped *)
Definition parts (s : string) : list string :=
  let segs := filter real_segment (split_on slash s) in
  if starts_slash s then "/" :: segs else segs.

(* str(PurePosixPath( *parts)) *)
Definition unparts (l : list string) : string :=
  match l with
  | [] => "."
  | r :: rest => if String.eqb r "/" then String slash (join_with "/" rest) else join_with "/" l
  end.

(* p.relative_to(base), walk_up=False: base's parts must be a prefix of p's parts *)
Fixpoint strip_parts (base p : list string) : option (list string) :=
  match base, p with
  | [], _ => Some p
  | x :: base', y :: p' => if String.eqb x y then strip_parts base' p' else None
  | _ :: _, [] => None
  end.

Definition is_absolute (p : list string) : bool := match p with r :: _ => String.eqb r "/" | [] => false end.
(* an absolute path is never relative to a relative one (different anchors), even to the empty path *)
Definition relative_parts (base p : list string) : option (list string) :=
  if is_absolute p && negb (is_absolute base) then None else strip_parts base p.

(* p.parent: the root and the empty path are their own parents *)
Definition parent_parts (l : list string) : list string :=
  match l with
  | [] => []
  | [r] => if String.eqb r "/" then l else []
  | _ => removelast l
  end.

Fixpoint first_some {A} (l : list (option A)) : option A :=
  match l with [] => None | Some a :: _ => Some a | None :: r => first_some r end.

Definition rel_json (o : option (list string)) : res json :=
  match o with Some r => Ok (JStr (unparts r)) | None => Err EValue end.

(* Object.relative_filepath: relative to the working directory; a regular file path that is not below it is
   returned as it is, and so is the first directory of a namespace package none of whose directories is below it
   (bb0db70; `self.filepath[0]` of an empty list is an IndexError, which no loaded tree can reach) *)
Definition rel_cwd (cwd : list string) (fp : fpath) : res json :=
  match fp with
  | FPNone => Err EBuiltin
  | FPStr s => Ok (JStr (match relative_parts cwd (parts s) with Some r => unparts r | None => s end))
  | FPList l => match first_some (map (fun s => relative_parts cwd (parts s)) l), l with
                | Some r, _ => Ok (JStr (unparts r))
                | None, s :: _ => Ok (JStr s)
                | None, [] => Err EUnmodelled
                end
  end.

(* Object.relative_package_filepath: relative to the directory that contains the top-level package *)
Definition rel_pkg (pkg fp : fpath) : res json :=
  match pkg, fp with
  | FPNone, _ => Err EBuiltin
  | _, FPNone => Err EBuiltin
  | FPList pl, FPList l =>
      rel_json (first_some (flat_map (fun p => map (fun s => relative_parts (parent_parts (parts p)) (parts s)) l) pl))
  | FPStr p, FPList l =>
      rel_json (first_some (map (fun s => relative_parts (parent_parts (parent_parts (parts p))) (parts s)) l))
  | FPList pl, FPStr s =>
      rel_json (first_some (map (fun p => relative_parts (parent_parts (parts p)) (parts s)) pl))
  | FPStr p, FPStr s => rel_json (relative_parts (parent_parts (parent_parts (parts p))) (parts s))
  end.

(* ------------------------------------------------------------------------------------------------ *)
(* 2. The generic full-mode encoder                                                                   *)

(* the derived values of one object; each property may raise *)
Record ginfo := mkGinfo {
  g_filepath : res json;
  g_relative : res json;
  g_relative_package : res json;
  g_parsed : list section;                          (* Docstring.parsed of the object's docstring *)
  g_param_parsed : list (string * list section) }.  (* parsed docstrings of parameters, by name *)

Definition enc_param_g (gi : ginfo) (p : parameter) : json :=
  JObj ([("name", JStr (p_name p)); ("annotation", enc_ev (p_annotation p)); ("kind", enc_optstr (p_kind p));
         ("default", enc_ev (p_default p))]
        ++ match p_doc p with
           | Some d => [("docstring", enc_doc_full (match lookup (p_name p) (g_param_parsed gi) with Some s => s | None => [] end) d)]
           | None => [] end).

Definition enc_extra_g (gi : ginfo) (x : extra) : list (string * json) :=
  match x with
  | XFunction decos params ret =>
      [("decorators", JArr (map enc_deco decos)); ("parameters", JArr (map (enc_param_g gi) params)); ("returns", enc_ev ret)]
  | _ => enc_extra x
  end.

Fixpoint set_key' (k : string) (v : json) (l : list (string * json)) : list (string * json) :=
  match l with
  | [] => [(k, v)]
  | (k', v') :: r => if String.eqb k' k then (k, v) :: r else (k', v') :: set_key' k v r
  end.

Section Gen.
  Context {C : Type}.
  Context (G : C -> tree -> ginfo).      (* the derived values of an object met in context c *)
  Context (down : C -> tree -> C).       (* the context of its members *)
  Context (prefix_of : C -> string).     (* the dotted path of the enclosing object ("" at a parentless root) *)

  Definition full_keys_g (path : string) (gi : ginfo) : res (list (string * json)) :=
    let! fp := g_filepath gi in
    let! rel := g_relative gi in
    let! relp := g_relative_package gi in
    Ok [("path", JStr path); ("filepath", fp); ("relative_filepath", rel); ("relative_package_filepath", relp)].

  Fixpoint enc_fullG (c : C) (t : tree) : res json :=
    match t with
    | TAlias n tp ln eln =>
        Ok (JObj ([("kind", JStr kind_alias); ("name", JStr n); ("target_path", JStr tp); ("path", JStr (dotted (prefix_of c) n))]
                  ++ truthy_field "lineno" ln ++ truthy_field "endlineno" eln))
    | TObj n ln eln doc labels members x =>
        let path := dotted (prefix_of c) n in
        let gi := G c t in
        let! fk := full_keys_g path gi in
        let c' := down c t in
        let! ms := mapM (fun km => match km with (k, m) => let! j := enc_fullG c' m in Ok (k, j) end) members in
        let base := [("kind", JStr (kind_of x)); ("name", JStr n)] ++ fk
                    ++ opt_field "lineno" ln ++ opt_field "endlineno" eln
                    ++ (match doc with Some d => [("docstring", enc_doc_full (g_parsed gi) d)] | None => [] end)
                    ++ [("labels", JArr (map JStr labels)); ("members", JObj ms)] in
        Ok (JObj (match x with
                  | XModule fp => set_key' "filepath" (enc_fpath fp) base
                  | _ => base ++ enc_extra_g gi x
                  end))
    end.
End Gen.

(* ------------------------------------------------------------------------------------------------ *)
(* 3. The derived values computed from the tree                                                       *)

(* where the object being encoded sits: the working directory, the file path of the top-level package
   (None: the object is itself the top), the file path of the enclosing module (None: there is none), the dotted
   path of the parent *)
Record fctx := mkFctx { fc_cwd : list string; fc_pkg : option fpath; fc_mod : option fpath; fc_prefix : string }.

Definition own_module (c : fctx) (x : extra) : option fpath :=
  match x with XModule fp => Some fp | _ => fc_mod c end.

(* Docstring.parsed without a parser: one text section holding the value *)
Definition text_sections (d : docstring) : list section := [mkSection "text" None (JStr (d_value d))].
Definition opt_sections (o : option docstring) : list section := match o with Some d => text_sections d | None => [] end.
Definition param_sections (x : extra) : list (string * list section) :=
  match x with
  | XFunction _ params _ =>
      flat_map (fun p => match p_doc p with Some d => [(p_name p, text_sections d)] | None => [] end) params
  | _ => []
  end.

Definition derive (c : fctx) (t : tree) : ginfo :=
  match t with
  | TAlias _ _ _ _ => mkGinfo (Err EValue) (Err EValue) (Err EValue) [] []
  | TObj n _ _ doc _ _ x =>
      match own_module c x with
      | None =>                                   (* Object.module: "does not have a parent module" *)
          mkGinfo (Err EValue) (Err EValue) (Err EValue) (opt_sections doc) (param_sections x)
      | Some fp =>
          let pkg := match fc_pkg c with Some p => p | None => fp end in
          mkGinfo (match fp with FPNone => Err EBuiltin | _ => Ok (enc_fpath fp) end)
                  (rel_cwd (fc_cwd c) fp) (rel_pkg pkg fp) (opt_sections doc) (param_sections x)
      end
  end.

Definition derive_down (c : fctx) (t : tree) : fctx :=
  match t with
  | TAlias _ _ _ _ => c
  | TObj n _ _ _ _ _ x =>
      let m := own_module c x in
      mkFctx (fc_cwd c) (match fc_pkg c with Some p => Some p | None => m end) m (dotted (fc_prefix c) n)
  end.

(* as_dict(full=True) + JSONEncoder of an object met in context c *)
Definition enc_fullD : fctx -> tree -> res json := enc_fullG derive derive_down fc_prefix.

(* a loaded package seen from working directory cwd *)
Definition root_ctx (cwd : list string) : fctx := mkFctx cwd None None EmptyString.
