(* C09 -- what the loaders put into the fields the schema constrains: a model of the construction sites.
   Static visitor (agents/visitor.py, agents/nodes/parameters.py): decorators from ast nodes, parameters from the
   buckets of ast.arguments.  Inspector (agents/inspector.py): _convert_parameter, _convert_object_to_annotation.
   Docstring parsers: a section is an instance of a DocstringSection class.  Finder: a module has a file or a
   non-empty list of directories.  The constants (bucket -> kind, inspect kind -> kind, section class -> kind) are
   regenerated from the sources (Gen/C09_load.v, Gen/C09_exprs.v).
   `build` assembles whole trees from source-level descriptions.  Executable definitions only. *)
From Coq Require Import List ZArith String Ascii Bool Arith.
From Verif Require Import Lib.Sexp Model.C09_json Gen.C09_schema Gen.C09_exprs Gen.C09_load Model.C09_expr Model.C09_enc Model.C09_paths.
Import ListNotations.
Open Scope string_scope.
Open Scope list_scope.
Open Scope nat_scope.

(* ---------- static visitor ---------- *)

(* an ast expression node: CPython always gives it a line number *)
Record ast_pos := mkPos { ap_lineno : Z; ap_end_lineno : option Z }.

(* Decorator(value, lineno=decorator_node.lineno, endlineno=decorator_node.end_lineno) *)
Definition visit_decorator (d : aval * ast_pos) : decorator :=
  mkDeco (fst d) (Some (ap_lineno (snd d))) (ap_end_lineno (snd d)).

(* one ast.arg with the default get_parameters aligned to it (ANone: no default) *)
Record ast_arg := mkArg { arg_name : string; arg_annotation : aval; arg_default : aval }.
Record ast_arguments := mkArgs { posonlyargs : list ast_arg; args : list ast_arg; vararg : option ast_arg;
                                 kwonlyargs : list ast_arg; kwarg : option ast_arg }.

Definition bucket_kind (b : string) : option string := lookup b static_param_kinds.

Definition visit_arg (b : string) (a : ast_arg) : parameter :=
  mkParam (arg_name a) (arg_annotation a) (bucket_kind b) (arg_default a) None.
Definition visit_variadic (b dflt : string) (a : option ast_arg) : list parameter :=
  match a with Some a => [mkParam (arg_name a) (arg_annotation a) (bucket_kind b) (AStr dflt) None] | None => [] end.

Definition visit_parameters (a : ast_arguments) : list parameter :=
  map (visit_arg "posonlyargs") (posonlyargs a) ++ map (visit_arg "args") (args a)
  ++ visit_variadic "vararg" vararg_default (vararg a)
  ++ map (visit_arg "kwonlyargs") (kwonlyargs a)
  ++ visit_variadic "kwarg" kwarg_default (kwarg a).

(* ---------- inspector ---------- *)

(* _convert_object_to_annotation: a string annotation, or the repr / __name__ of an object, is compiled; when that text is
   not an expression (SyntaxError) the text itself is the annotation (since fix 4debb62; the object was kept before) *)
Inductive pyann :=
| AnnEmpty
| AnnText (text : string) (parsed : option aval).

Definition convert_annotation (a : pyann) : aval :=
  match a with
  | AnnEmpty => ANone
  | AnnText text parsed => match parsed with Some x => x | None => AStr text end
  end.

(* the default of an inspect.Parameter: empty, an object whose __name__ is a string (that string), anything else (its repr) --
   since fix 5db8f3a a __name__ that is not a string is no longer taken *)
Inductive pydefault := DEmpty | DNamed (name : string) | DOther (repr : string).

Definition inspect_default (kind : string) (d : pydefault) : aval :=
  if String.eqb kind "VAR_POSITIONAL" then AStr "()"
  else if String.eqb kind "VAR_KEYWORD" then AStr "{}"
  else match d with DEmpty => ANone | DNamed n => AStr n | DOther r => AStr r end.

Record sig_param := mkSig { sp_name : string; sp_kind : string; sp_annotation : pyann; sp_default : pydefault }.

Definition inspect_parameter (p : sig_param) : parameter :=
  mkParam (sp_name p) (convert_annotation (sp_annotation p)) (lookup (sp_kind p) inspect_kind_map)
          (inspect_default (sp_kind p) (sp_default p)) None.

Definition inspect_kinds : list string := ["POSITIONAL_ONLY"; "POSITIONAL_OR_KEYWORD"; "VAR_POSITIONAL"; "KEYWORD_ONLY"; "VAR_KEYWORD"].

(* ---------- docstring parsers ---------- *)
(* (the dataclasses extension, which needs docstrings, follows them) *)

Record ssection := mkSSection { ss_class : string; ss_value : secvalue; ss_title : option string }.
Record sdoc := mkSDoc { sd_value : string; sd_lineno : option Z; sd_endlineno : option Z; sd_sections : list ssection }.

(* `kind` is a class attribute *)
Definition build_section (s : ssection) : section :=
  mkSection (match lookup (ss_class s) section_classes with Some k => k | None => "" end) (ss_value s) (ss_title s).
Definition build_doc (d : sdoc) : docstring :=
  mkDoc (sd_value d) (sd_lineno d) (sd_endlineno d) (map build_section (sd_sections d)).

(* ---------- extensions/dataclasses.py: the synthesised __init__ ---------- *)

(* one field that takes part in __init__: keyword-only or not is decided by the extension from kw_only arguments and the
   KW_ONLY sentinel; whatever it decides, the kind is one of two ParameterKind members *)
Record synth_param := mkSynth { sy_name : string; sy_annotation : aval; sy_kw_only : bool; sy_default : aval; sy_doc : option sdoc }.

Definition synth_parameter (p : synth_param) : parameter :=
  mkParam (sy_name p) (sy_annotation p) (Some (if sy_kw_only p then dataclass_kw_kind else dataclass_other_kind))
          (sy_default p) (option_map build_doc (sy_doc p)).

Definition synth_init (fields : list synth_param) : kindspec :=
  KFunction [] (mkParam "self" ANone (Some dataclass_self_kind) ANone None :: map synth_parameter fields) (AStr "None").

(* ---------- whole trees ---------- *)

Inductive sspec :=
| SModule
| SClass (bases : list aval) (decos : list (aval * ast_pos))
| SFunction (decos : list (aval * ast_pos)) (arguments : ast_arguments) (returns : aval)   (* visitor *)
| SInspected (params : list sig_param) (returns : pyann)                                    (* inspector: no decorators *)
| SAttribute (value annotation : aval)
| SProperty (returns : pyann)
| SDataclassInit (fields : list synth_param).                                               (* dataclasses extension *)                                                              (* inspector: property -> attribute *)

Definition build_spec (s : sspec) : kindspec :=
  match s with
  | SModule => KModule
  | SClass bases decos => KClass bases (map visit_decorator decos)
  | SFunction decos a returns => KFunction (map visit_decorator decos) (visit_parameters a) returns
  | SInspected params returns => KFunction [] (map inspect_parameter params) (convert_annotation returns)
  | SAttribute value annotation => KAttribute value annotation
  | SProperty returns => KAttribute ANone (convert_annotation returns)
  | SDataclassInit fields => synth_init fields
  end.

(* where the finder found a module: one file, or the directories of a namespace (sub)package -- at least one *)
Inductive sfp := SFile (p : path) | SDirs (first : path) (others : list path) | SNotModule.

Definition build_fp (f : sfp) : pfp :=
  match f with SFile p => POwn (MOne p) | SDirs d l => POwn (MList (d :: l)) | SNotModule => PInherit end.

Inductive src :=
| SAlias (name target_path path : string) (lineno endlineno : option Z)
| SObj (spec : sspec) (name path : string) (fp : sfp) (lineno endlineno : option Z) (doc : option sdoc)
       (labels : list string) (members : list (string * src)).

Fixpoint build (s : src) : pobj :=
  match s with
  | SAlias name target path lineno endlineno => PAlias name target path lineno endlineno
  | SObj spec name path fp lineno endlineno doc labels members =>
      PObj (build_spec spec) name path (build_fp fp) lineno endlineno (option_map build_doc doc) labels
           (map (fun nm => (fst nm, build (snd nm))) members)
  end.

(* ---------- what has to hold of the sources (and nothing about line numbers, kinds or file paths) ---------- *)

Definition decos_src_ok (l : list (aval * ast_pos)) : bool := forallb (fun d => aval_ok (fst d)) l.
Definition arg_src_ok (a : ast_arg) : bool := aval_ok (arg_annotation a) && aval_ok (arg_default a).
Definition optarg_src_ok (a : option ast_arg) : bool := match a with Some a => aval_ok (arg_annotation a) | None => true end.
Definition arguments_src_ok (a : ast_arguments) : bool :=
  forallb arg_src_ok (posonlyargs a) && forallb arg_src_ok (args a) && optarg_src_ok (vararg a)
  && forallb arg_src_ok (kwonlyargs a) && optarg_src_ok (kwarg a).

Definition ann_src_ok (a : pyann) : bool := aval_ok (convert_annotation a).
Definition sig_src_ok (p : sig_param) : bool :=
  str_in (sp_kind p) inspect_kinds && ann_src_ok (sp_annotation p).

(* a parser instantiates a section class with a value of that class's shape *)
Definition ssection_src_ok (s : ssection) : bool :=
  match lookup (ss_class s) section_classes with
  | Some k => match lookup k section_table with Some sk => secvalue_matches sk (ss_value s) | None => false end
  | None => false
  end.
Definition sdoc_src_ok (d : option sdoc) : bool :=
  match d with Some d => forallb ssection_src_ok (sd_sections d) | None => true end.

Definition synth_src_ok (p : synth_param) : bool := aval_ok (sy_annotation p) && aval_ok (sy_default p) && sdoc_src_ok (sy_doc p).

Definition sspec_src_ok (s : sspec) : bool :=
  match s with
  | SModule => true
  | SClass bases decos => forallb aval_ok bases && decos_src_ok decos
  | SFunction decos a returns => decos_src_ok decos && arguments_src_ok a && aval_ok returns
  | SInspected params returns => forallb sig_src_ok params && ann_src_ok returns
  | SAttribute value annotation => aval_ok value && aval_ok annotation
  | SProperty returns => ann_src_ok returns
  | SDataclassInit fields => forallb synth_src_ok fields
  end.

Fixpoint src_ok (s : src) : bool :=
  match s with
  | SAlias _ _ _ _ _ => true
  | SObj spec _ _ _ _ _ doc _ members => sspec_src_ok spec && sdoc_src_ok doc && forallb (fun nm => src_ok (snd nm)) members
  end.

(* ---------- generated tables are usable ---------- *)

Fixpoint ends_with (suffix s : string) : bool :=
  if String.eqb s suffix then true
  else match s with EmptyString => false | String _ r => ends_with suffix r end.

Definition load_tables_ok : bool :=
  forallb (fun b => match bucket_kind b with Some k => str_in k enc_parameter_kinds | None => false end)
          ["posonlyargs"; "args"; "vararg"; "kwonlyargs"; "kwarg"]
  && forallb (fun k => match lookup k inspect_kind_map with Some v => str_in v enc_parameter_kinds | None => false end) inspect_kinds
  && forallb (fun k => str_in k enc_parameter_kinds) (dataclass_kw_kind :: dataclass_other_kind :: dataclass_self_kind :: loader_param_kinds)
  && forallb (ends_with ".lineno") decorator_lineno_sources
  && forallb (fun c => match lookup c section_classes with Some k => key_in k section_table | None => false end) parser_section_classes.

(* ---------- sexp: the builders alone, for the correspondence with the loaders ---------- *)

Definition arg_of (s : sexp) : option ast_arg :=
  match s with
  | SList [SStr n; a; d] => do a' <- aval_of a; do d' <- aval_of d; Some (mkArg n a' d')
  | _ => None
  end.

Definition arguments_of (s : sexp) : option ast_arguments :=
  match s with
  | SList [po; ar; va; ko; kw] =>
      do po' <- as_list_of arg_of po; do ar' <- as_list_of arg_of ar; do va' <- as_opt arg_of va;
      do ko' <- as_list_of arg_of ko; do kw' <- as_opt arg_of kw; Some (mkArgs po' ar' va' ko' kw')
  | _ => None
  end.

Definition pyann_of (s : sexp) : option pyann :=
  match s with
  | SList [SStr "empty"] => Some AnnEmpty
  | SList [SStr "text"; SStr x; p] => do p' <- as_opt aval_of p; Some (AnnText x p')
  | _ => None
  end.

Definition pydefault_of (s : sexp) : option pydefault :=
  match s with
  | SList [SStr "empty"] => Some DEmpty
  | SList [SStr "named"; SStr n] => Some (DNamed n)
  | SList [SStr "other"; SStr r] => Some (DOther r)
  | _ => None
  end.

Definition sig_of (s : sexp) : option sig_param :=
  match s with
  | SList [SStr n; SStr k; a; d] => do a' <- pyann_of a; do d' <- pydefault_of d; Some (mkSig n k a' d')
  | _ => None
  end.

Definition sexp_of_aval (a : aval) : sexp := sexp_of_json (enc_aval a).

Definition sexp_of_param (p : parameter) : sexp :=
  SList [SStr (p_name p); sexp_of_aval (p_annotation p); of_opt SStr (p_kind p); sexp_of_aval (p_default p);
         of_bool (is_object (p_annotation p)); of_bool (is_object (p_default p))].

(* ("visit-params" arguments) -> ((name annotation (kind) default annotation_is_object default_is_object) ...)
   ("inspect-params" (sig ...)) -> the same
   ("visit-decorators" ((value lineno (end)) ...)) -> ((lineno) ...) *)
Definition run_load (s : sexp) : option sexp :=
  match s with
  | SList [SStr "visit-params"; a] =>
      Some (match arguments_of a with Some a' => SList (map sexp_of_param (visit_parameters a')) | None => bad_input end)
  | SList [SStr "inspect-params"; l] =>
      Some (match as_list_of sig_of l with Some l' => SList (map sexp_of_param (map inspect_parameter l')) | None => bad_input end)
  | SList [SStr "synth-kinds"; l] =>
      Some (match as_list_of as_bool l with
            | Some l' => SList (map (fun p => of_opt SStr (p_kind p)) (match synth_init (map (fun b => mkSynth "" ANone b ANone None) l') with
                                                                       | KFunction _ ps _ => ps | _ => [] end))
            | None => bad_input
            end)
  | SList [SStr "load-tables"] => Some (SList [of_bool load_tables_ok])
  | _ => None
  end.
