(* C02 model: a module body with (nested) class bodies.  Operational side: the visitor as it runs -- one event stream,
   one `current` scope, the suspended parents on a stack (`self.current = class_; generic_visit(node);
   self.current = self.current.parent` in visit_classdef).  Compositional side: every class body on its own.
   Executable definitions only. *)
From Coq Require Import List ZArith String Bool Arith.
From Verif Require Import Lib.Sexp Model.C02_kinds Gen.C02_tables Model.C02_scope.
Import ListNotations.
Open Scope string_scope.
Open Scope list_scope.

Inductive stmt := SItem (it : item) | SClass (id : Z) (n : string) (body : list stmt).

(* what the visitor meets, in order *)
Inductive event := EItem (it : item) | EEnter (id : Z) (n : string) | EExit.

Fixpoint events_of (s : stmt) : list event :=
  match s with
  | SItem it => [EItem it]
  | SClass id n body =>
      EEnter id n :: (fix go (l : list stmt) : list event := match l with [] => [] | x :: r => events_of x ++ go r end) body ++ [EExit]
  end.
Fixpoint events (l : list stmt) : list event := match l with [] => [] | x :: r => events_of x ++ events r end.

Definition child (p n : string) : string := String.append p (String.append "." n).

Record frame := mkFrame { fr_path : string; fr_scope : scope; fr_log : list outcome }.
(* cur = self.current; stack = the chain of parents still being visited; finished = class bodies completed so far *)
Record machine := mkM { cur : frame; stack : list frame; finished : list frame }.

Definition on_item (fr : frame) (it : item) : frame :=
  mkFrame (fr_path fr) (step (fr_scope fr) it) (fr_log fr ++ [snd (handle_item (fr_scope fr) it)]).

Definition run_event (m : machine) (e : event) : machine :=
  match e with
  | EItem it => mkM (on_item (cur m) it) (stack m) (finished m)
  | EEnter id n =>
      (* the class is set as member of the current scope, then becomes the current scope: a class keeps overloads *)
      mkM (mkFrame (child (fr_path (cur m)) n) (mkScope true [] []) [])
          (on_item (cur m) (IBind id n) :: stack m) (finished m)
  | EExit =>
      match stack m with
      | p :: r => mkM p r (finished m ++ [cur m])
      | [] => m                      (* unbalanced: never produced by [events] *)
      end
  end.
Definition run_events (es : list event) (m : machine) : machine := fold_left run_event es m.

(* compositional reading: a scope sees its own definitions and its classes as binders; each class body is a scope
   of its own, started empty *)
Definition as_item (s : stmt) : item := match s with SItem it => it | SClass id n _ => IBind id n end.
Definition direct_items (l : list stmt) : list item := map as_item l.

Definition scope_frame (path : string) (s0 : scope) (l : list stmt) : frame :=
  mkFrame path (visit_items (direct_items l) s0) (visit_log (direct_items l) s0).

(* class bodies in the order they are completed (inner classes before the class that contains them) *)
Fixpoint sub_frames_of (path : string) (s : stmt) : list frame :=
  match s with
  | SItem _ => []
  | SClass id n body =>
      let p := child path n in
      (fix go (l : list stmt) : list frame := match l with [] => [] | x :: r => sub_frames_of p x ++ go r end) body
      ++ [scope_frame p (mkScope true [] []) body]
  end.
Fixpoint sub_frames (path : string) (l : list stmt) : list frame :=
  match l with [] => [] | x :: r => sub_frames_of path x ++ sub_frames path r end.

(* ---------- s-expression interface ---------- *)
Fixpoint dec_stmt_fuel (fuel : nat) (s : sexp) : option stmt :=
  match fuel with
  | O => None
  | S k =>
      match s with
      | SList [SStr "class"; SInt i; SStr n; SList body] =>
          do body' <- map_opt (dec_stmt_fuel k) body; Some (SClass i n body')
      | _ => do it <- dec_item s; Some (SItem it)
      end
  end.

Definition enc_frame (fr : frame) : sexp := SList [SStr (fr_path fr); enc_scope (fr_scope fr) (fr_log fr)].

Definition run_tree (s : sexp) : sexp :=
  match s with
  | SList [SStr tag; SStr path; SList body] =>
      match map_opt (dec_stmt_fuel 64) body with
      | Some l =>
          let s0 := mkScope (existsb (skind_eqb KModule) tracking_kinds) [] [] in
          if String.eqb tag "tree" then
            let m := run_events (events l) (mkM (mkFrame path s0 []) [] []) in
            SList [enc_frame (cur m); SList (map enc_frame (finished m)); of_nat (List.length (stack m))]
          else if String.eqb tag "tree-spec" then
            SList [enc_frame (scope_frame path s0 l); SList (map enc_frame (sub_frames path l)); of_nat 0]
          else bad_input
      | None => bad_input
      end
  | _ => bad_input
  end.
