(* C13 model, part 6: src/_griffe/docstrings/numpy.py at character level.
   _is_dash_line, _read_block_items, _read_block, _RE_PARAMETER / _RE_RETURNS / the default-value regex hand-compiled
   to functions, textwrap.dedent, every section reader (parameters with several names, choices, defaults and
   ", optional"; deprecated; returns / yields / receives with their three different parent fallbacks; raises / warns;
   attributes; functions / classes / modules; examples), _append_section and the main loop of parse_numpy with code
   fences, admonitions and ignore_init_summary.  Executable definitions only. *)
From Coq Require Import List Ascii String Bool Arith.
From Verif Require Import Model.C13_strings Model.C13_google Gen.C13_tables.
Import ListNotations.
Open Scope char_scope.
Open Scope list_scope.
Open Scope nat_scope.

(* numpy._section_kind.get(line_lower) ; the table is regenerated from the source on every run *)
Definition n_section_kind (title_lower : str) : option kind := table_lookup numpy_section_kind title_lower.

(* not _is_empty_line(line) and _is_empty_line(line.replace("-", "")) *)
Definition is_dash_line (l : str) : bool :=
  negb (is_empty_line l) && forallb (fun c => is_space c || ceq c dash) l.

Definition next_is_dash (r : list str) : bool := match r with d :: _ => is_dash_line d | [] => false end.

(* the loop of _read_block_items after the first item line: (remaining lines of the current item, later items, #lines).
   A line at column 0 whose NEXT line is a dash line is the title of the next section: stop before it. *)
Fixpoint n_rbi (ls : list str) : list str * list (list str) * nat :=
  match ls with
  | [] => ([], [], 0)
  | l :: r =>
      if is_empty_line l then let '(c, its, k) := n_rbi r in ([] :: c, its, S k)
      else if startswith (spaces 4) l then let '(c, its, k) := n_rbi r in (skipn 4 l :: c, its, S k)
      else if startswith [sp] l then let '(c, its, k) := n_rbi r in (lstrip l :: c, its, S k)
      else if next_is_dash r then ([], [], 0)
      else let '(c, its, k) := n_rbi r in ([], (l :: c) :: its, S k)
  end.

(* _read_block_items(docstring, offset=…) on the lines from offset on; consumed = lines used, the rest is read by the main loop *)
Definition n_read_block_items (ls : list str) : rb_items :=
  match ls with
  | [] => RBI [] 0
  | _ => match skip_empty ls with
         | None => RBIErr
         | Some (nskip, first, after) =>
             let '(c, its, k) := n_rbi after in RBI ((first :: c) :: its) (nskip + 1 + k)
         end
  end.

(* the loop of _read_block: stop at a blank line followed (directly, or after one line) by a dash line *)
Fixpoint n_rb_rest (ls : list str) : list str * nat :=
  match ls with
  | [] => ([], 0)
  | l :: r =>
      if is_empty_line l && (next_is_dash r || next_is_dash (tl r)) then ([], 0)
      else let '(b, k) := n_rb_rest r in (l :: b, S k)
  end.

Definition n_read_block (ls : list str) : rb_block :=
  match ls with
  | [] => RBB [] 0
  | _ => match skip_empty ls with
         | None => RBBErr
         | Some (nskip, first, after) =>
             let '(b, k) := n_rb_rest (first :: after) in RBB (rstrip_nl (join_nl b)) (nskip + k)
         end
  end.

(* ---- textwrap.dedent, on the lines of the text (CPython 3.12: _whitespace_only_re, _leading_whitespace_re) *)
Definition tab : ascii := "009".
Definition is_sptab (c : ascii) : bool := ceq c sp || ceq c tab.
(* _whitespace_only_re.sub('', text): a line made of blanks and tabs only becomes empty *)
Definition norm_ws_line (l : str) : str := if forallb is_sptab l then [] else l.
Definition lead_ws (l : str) : str := fst (span is_sptab l).
Fixpoint lcp (a b : str) : str :=
  match a, b with
  | x :: a', y :: b' => if ceq x y then x :: lcp a' b' else []
  | _, _ => []
  end.
(* the margin loop: None until the first line with content *)
Fixpoint margin_of (m : option str) (ls : list str) : option str :=
  match ls with
  | [] => m
  | l :: r => match l with
              | [] => margin_of m r
              | _ => margin_of (Some (match m with None => lead_ws l | Some x => lcp x (lead_ws l) end)) r
              end
  end.
Definition dedent (ls : list str) : list str :=
  let ls' := map norm_ws_line ls in
  match margin_of None ls' with
  | Some (c :: m) => map (fun l => if startswith (c :: m) l then skipn (S (List.length m)) l else l) ls'
  | _ => ls'
  end.

(* dedent("\n".join(item[1:])).rstrip("\n") *)
Definition n_text (conts : list str) : str := rstrip_nl (join_nl (dedent conts)).
(* dedent("\n".join(item[1:])).strip() *)
Definition n_text_strip (conts : list str) : str := strip (join_nl (dedent conts)).

(* ---- _RE_NAME = \*{0,2}[_a-z][_a-z0-9]*  (IGNORECASE), anchored at the start of s: (matched text, rest) *)
Definition star : ascii := "*".
Definition is_name_start (c : ascii) : bool :=
  let n := nat_of_ascii c in ((65 <=? n) && (n <=? 90)) || ((97 <=? n) && (n <=? 122)) || (n =? 95).

Definition re_name (s : str) : option (str * str) :=
  let '(stars, t) := match s with
                     | c1 :: c2 :: t' => if ceq c1 star && ceq c2 star then ([star; star], t')
                                         else if ceq c1 star then ([star], c2 :: t') else ([], s)
                     | [c1] => if ceq c1 star then ([star], []) else ([], s)
                     | [] => ([], s)
                     end in
  match t with
  | c :: r => if is_name_start c then let '(w, rest) := span is_word r in Some (stars ++ c :: w, rest) else None
  | [] => None
  end.

Definition comma : ascii := ",".

(* (?:,\sNAME)* : greedy; an iteration that fails gives everything back.  Fuel = length of s is enough: every iteration
   consumes at least three characters; running out of fuel is reported. *)
Fixpoint re_more_names (fuel : nat) (s : str) : option (str * str) :=
  match fuel with
  | 0 => match s with "," :: _ => None | _ => Some ([], s) end
  | S f =>
      match s with
      | "," :: w :: t =>
          if is_space w then
            match re_name t with
            | Some (n, rest) => match re_more_names f rest with
                                | Some (m, rest') => Some (comma :: w :: n ++ m, rest')
                                | None => None
                                end
            | None => Some ([], s)
            end
          else Some ([], s)
      | _ => Some ([], s)
      end
  end.

(* s.rsplit(c, 1) when c occurs: (before the LAST c, after it) *)
Fixpoint rsplit_char (c : ascii) (s : str) : option (str * str) :=
  match s with
  | [] => None
  | d :: r => match rsplit_char c r with
              | Some (a, b) => Some (d :: a, b)
              | None => if ceq d c then Some ([], r) else None
              end
  end.

Definition lbrace : ascii := "{".
Definition rbrace : ascii := "}".

Inductive re_result (A : Type) := ReNo | ReFuel | ReYes (x : A).
Arguments ReNo {A}. Arguments ReFuel {A}. Arguments ReYes {A} x.

(* _RE_PARAMETER.match(line) -> (names, choices, type).  The pattern is not anchored at the end: what follows is ignored. *)
Definition re_parameter (line : str) : re_result (str * option str * option str) :=
  match re_name line with
  | None => ReNo
  | Some (n, r) =>
      match re_more_names (List.length r) r with
      | None => ReFuel
      | Some (m, r') =>
          let names := n ++ m in
          match r' with
          | a :: ":" :: b :: t =>
              if is_space a && is_space b then
                match t with
                | [] => ReYes (names, None, None)
                | c0 :: u =>
                    if ceq c0 lbrace then
                      match rsplit_char rbrace u with
                      | Some (x :: inner, _) => ReYes (names, Some (x :: inner), None)
                      | _ => ReYes (names, None, Some t)
                      end
                    else ReYes (names, None, Some t)
                end
              else ReYes (names, None, None)
          | _ => ReYes (names, None, None)
          end
      end
  end.

(* s.split(", ") *)
Fixpoint split_cs (skip : bool) (s : str) : list str :=
  match s with
  | [] => [[]]
  | c :: r =>
      if skip then split_cs false r
      else if ceq c comma && match r with d :: _ => ceq d sp | [] => false end then [] :: split_cs true r
      else match split_cs false r with
           | p :: ps => (c :: p) :: ps
           | [] => [[c]]
           end
  end.

(* s.split(", ", 1)[0] *)
Definition before_cs (s : str) : str := hd [] (split_cs false s).

Definition s_default : str := s_of "default".

(* what may follow the comma in  ^(?P<annotation>.+),\s+default(?: |: |=)(?P<default>.+)$  -> default *)
Definition default_tail (t : str) : option str :=
  match t with
  | w :: _ =>
      if is_space w then
        let r := lstrip t in
        if startswith s_default r then
          match skipn 7 r with
          | " " :: x :: y => Some (x :: y)
          | ":" :: " " :: x :: y => Some (x :: y)
          | "=" :: x :: y => Some (x :: y)
          | _ => None
          end
        else None
      else None
  | [] => None
  end.

(* re.match(r"^(?P<annotation>.+),\s+default(?: |: |=)(?P<default>.+)$", s): the greedy annotation group backtracks to
   the LAST comma from which the rest matches; at least one character before it *)
Fixpoint find_default (s : str) : option (str * str) :=
  match s with
  | [] => None
  | c :: r =>
      match find_default r with
      | Some (a, d) => Some (c :: a, d)
      | None => match r with
                | d0 :: t => if ceq d0 comma then match default_tail t with Some d => Some ([c], d) | None => None end else None
                | [] => None
                end
      end
  end.

Definition ostr (o : option str) : str := match o with Some s => s | None => [] end.

(* one item of _read_parameters: one DocstringParameter per name; None = "Could not parse line" (skipped) *)
Inductive n_items_result := NItems (l : list pitem) | NFuel.

Definition n_parse_param (c : pctx) (it : list str) : option (list pitem) :=
  match it with
  | [] => Some []
  | l0 :: conts =>
      match re_parameter l0 with
      | ReFuel => None
      | ReNo => Some []
      | ReYes (names_s, choices, ty) =>
          let names := split_cs false names_s in
          let '(ann0, dflt0) :=
            match choices with
            | Some ch => (Some ch, Some (before_cs ch))
            | None => match ty with
                      | Some t => match find_default t with
                                  | Some (a, d) => (Some a, Some d)
                                  | None => (Some t, None)
                                  end
                      | None => (None, None)
                      end
            end in
          let ann1 := match ann0 with Some a => Some (removesuffix s_optional a) | None => None end in
          let desc := rstrip (join_nl conts) in
          (* signature_annotations.get(name, annotation) / signature_defaults.get(name, default): each name its own
             signature entry (C13-F10 repair) *)
          let ann := fun n => match ann1 with
                              | Some a => Some a
                              | None => match lookup_param c n with Some (a, _) => a | None => None end
                              end in
          let dflt := fun n => match dflt0 with
                               | Some d => Some d
                               | None => match lookup_param c n with Some (_, v) => v | None => None end
                               end in
          Some (map (fun n => mkItem (Some n) (ann n) desc (dflt n)) names)
      end
  end.

Fixpoint n_parse_params (c : pctx) (items : list (list str)) : option (list pitem) :=
  match items with
  | [] => Some []
  | it :: r => match n_parse_param c it, n_parse_params c r with
               | Some a, Some b => Some (a ++ b)
               | _, _ => None
               end
  end.

(* one item of _read_attributes_section *)
Definition n_parse_attr (c : pctx) (it : list str) : option pitem :=
  match it with
  | [] => None
  | l0 :: conts =>
      let '(name, ann) :=
        match split_first colon l0 with
        | Some (n, a) => (strip n, match strip a with [] => None | a' => Some a' end)
        | None => (l0, None)
        end in
      let ann' := match ann with
                  | Some a => Some a
                  | None => match lookup_attr c name with Some a => a | None => None end
                  end in
      Some (mkItem (Some name) ann' (n_text conts) None)
  end.

(* one item of _read_functions_section / _read_classes_section / _read_modules_section (the three are the same code) *)
Definition n_parse_func (it : list str) : option pitem :=
  match it with
  | [] => None
  | l0 :: conts =>
      match split_first lparen l0 with
      | Some (n, _) => Some (mkItem (Some (strip n)) (Some (strip l0)) (n_text_strip conts) None)
      | None => Some (mkItem (Some l0) None (n_text_strip conts) None)
      end
  end.

(* one item of _read_raises_section / _read_warns_section *)
Definition n_parse_raise (it : list str) : option pitem :=
  match it with
  | [] => None
  | l0 :: conts => Some (mkItem None (Some l0) (n_text conts) None)
  end.

(* _RE_RETURNS.match(line) -> (nt_name or name, nt_type or type); None = no alternative matches (empty line) *)
Definition last_char_str (s : str) : str := match rev s with c :: _ => [c] | [] => [] end.
Definition re_returns (line : str) : option (option str * option str) :=
  let alt34 :=
    match lstrip line with
    | ":" :: r => if is_empty_line r then Some (None, None)             (* alternative 3: blanks, colon, blanks, end *)
                  else match line with
                       | ":" :: r' => Some (None, Some (lstrip r'))      (* alternative 4 with its optional colon: type = rest after blanks *)
                       | _ => Some (None, Some line)
                       end
    | _ => match line with [] => None | _ => Some (None, Some line) end
    end in
  match re_name line with
  | Some (n, r) =>
      match lstrip r with
      | ":" :: r2 =>
          match r2 with
          | [] => Some (Some n, None)                                    (* alternative 2: just name *)
          | _ => Some (Some n, Some (match lstrip r2 with [] => last_char_str r2 | t => t end))   (* alternative 1: name and type *)
          end
      | _ => alt34
      end
  | None => alt34
  end.

(* ExprName -> itself; tuple -> slice.elements[index] (IndexError: the assignment does not happen); anything else -> itself *)
Definition elem_or (whole : str) (p : rpart) (index : nat) : str :=
  match p with
  | RPName s => s
  | RPTuple _ es => match nth_error es index with Some e => e | None => whole end
  end.

(* the parent fallback of _read_returns_section (per element only if len(items) > 1) *)
Definition n_returns_fallback (c : pctx) (multiple : bool) (index : nat) : option str :=
  match c_ret c with
  | RNone => None
  | RPlain p => Some (if multiple then elem_or (rpart_text p) p index else rpart_text p)
  | RIter w p => Some (if multiple then elem_or w p index else w)
  | RGen w _ _ r => Some (if multiple then elem_or w r index else w)
  end.

(* … of _read_yields_section (always per element: finding C13-F6) *)
Definition n_yields_fallback (c : pctx) (index : nat) : option str :=
  match c_ret c with
  | RNone => None
  | RPlain p => Some (rpart_text p)
  | RIter w p => Some (elem_or w p index)
  | RGen w y _ _ => Some (elem_or w y index)
  end.

(* … of _read_receives_section *)
Definition n_receives_fallback (c : pctx) (index : nat) : option str :=
  match c_ret c with
  | RNone => None
  | RPlain p => Some (rpart_text p)
  | RIter w _ => Some w
  | RGen w _ s _ => Some (elem_or w s index)
  end.

Fixpoint n_parse_ret_items (fb : nat -> option str) (index : nat) (items : list (list str)) : list pitem :=
  match items with
  | [] => []
  | it :: r =>
      match it with
      | [] => n_parse_ret_items fb (S index) r
      | l0 :: conts =>
          match re_returns l0 with
          | None => n_parse_ret_items fb (S index) r
          | Some (name, ann) =>
              mkItem (Some (ostr name)) (match ann with Some a => Some a | None => fb index end) (n_text conts) None
                :: n_parse_ret_items fb (S index) r
          end
      end
  end.

Record nopts := mkNOpts { n_trim : bool; n_skip_summary : bool }.
Definition n_default_opts : nopts := mkNOpts true false.

Definition n_items_reader (f : list (list str) -> list pitem) (ls : list str) : rs_result :=
  match n_read_block_items ls with
  | RBIErr => RSErr
  | RBI its k => RS (BItems (f its)) k
  end.

(* _section_reader[kind](docstring, offset=offset + 2, **options); RSFuel cannot happen (see re_more_names) *)
Inductive n_rs_result := NRS (b : sec_body) (consumed : nat) | NRSErr | NRSFuel.

Definition lift_rs (r : rs_result) : n_rs_result := match r with RS b k => NRS b k | RSErr => NRSErr end.

Definition n_read_section (o : nopts) (c : pctx) (k : kind) (ls : list str) : n_rs_result :=
  match k with
  | KParams | KOther =>
      match n_read_block_items ls with
      | RBIErr => NRSErr
      | RBI its n => match n_parse_params c its with Some ps => NRS (BItems ps) n | None => NRSFuel end
      end
  | KDeprecated =>
      lift_rs (n_items_reader (fun its => match its with
                                          | (l0 :: conts) :: _ => [mkItem None (Some l0) (n_text conts) None]
                                          | _ => []
                                          end) ls)
  | KAttrs => lift_rs (n_items_reader (filter_map (n_parse_attr c)) ls)
  | KFuncs | KClasses | KModules => lift_rs (n_items_reader (filter_map n_parse_func) ls)
  | KRaises | KWarns => lift_rs (n_items_reader (filter_map n_parse_raise) ls)
  | KReturns =>
      lift_rs (n_items_reader (fun its => n_parse_ret_items (n_returns_fallback c (negb (List.length its <=? 1))) 0 its) ls)
  | KYields => lift_rs (n_items_reader (n_parse_ret_items (n_yields_fallback c) 0) ls)
  | KReceives => lift_rs (n_items_reader (n_parse_ret_items (n_receives_fallback c) 0) ls)
  | KExamples => match n_read_block ls with
                 | RBBErr => NRSErr
                 | RBB t n => NRS (BExamples (parse_examples (n_trim o) t)) n
                 end
  end.

(* ---- _append_section *)
Definition s_warnings : str := s_of "warnings".
Definition s_notes : str := s_of "notes".
Definition n_adm_kind (title : str) : str :=
  let k := dashify title in
  if str_eqb k s_warnings || str_eqb k s_notes then removelast k else k.

Definition n_append (cur : list str) (adm : str) : list gsec :=
  match adm with
  | [] => if any_truthy cur then [GText (text_of cur)] else []
  | _ => [GAdm (n_adm_kind adm) adm (text_of cur)]
  end.

Definition is_nil {A} (l : list A) : bool := match l with [] => true | _ => false end.

(* a Deprecated section always counts (its value is an object), the others only with items *)
Definition n_titled (k : kind) (b : sec_body) : list gsec := titled None k b.

(* the while loop of parse_numpy.  cur = current_section, adm = admonition_title ("" = none). *)
Fixpoint nloop (fuel : nat) (o : nopts) (c : pctx) (cur : list str) (adm : str) (incode : bool)
         (lines : list str) : presult :=
  match fuel with
  | 0 => PFuel
  | S fuel' =>
    match lines with
    | [] => POk (if nonempty_list cur && is_nil adm && negb (any_truthy cur) then [GText []] else n_append cur adm)
    | l :: rest =>
        if incode then nloop fuel' o c (cur ++ [l]) adm (negb (is_fence (lower l))) rest
        else if is_fence (lower l) then nloop fuel' o c (cur ++ [l]) adm true rest
        else if is_empty_line l then nloop fuel' o c (cur ++ [[]]) adm false rest
        else match rest with
             | [] => POk (n_append (cur ++ [l]) adm)
             | d :: after =>
                 if is_dash_line d then
                   match n_section_kind (lower l) with
                   | Some k =>
                       match n_read_section o c k after with
                       | NRSErr => PErr "IndexError"
                       | NRSFuel => PFuel
                       | NRS b n => pcons (n_append cur adm ++ n_titled k b) (nloop fuel' o c [] [] false (skipn n after))
                       end
                   | None => pcons (n_append cur adm) (nloop fuel' o c [] l false after)
                   end
                 else nloop fuel' o c (cur ++ [l]) adm false rest
             end
    end
  end.

(* parse_numpy(docstring, **options) on docstring.lines; n_skip_summary = "ignore_init_summary and the parent is the
   __init__ method of a class" (offset = 2) *)
Definition parse_numpy (o : nopts) (c : pctx) (lines : list str) : presult :=
  let ls := if n_skip_summary o then skipn 2 lines else lines in
  nloop (S (List.length ls)) o c [] [] false ls.
