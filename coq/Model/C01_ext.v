(* C01 extension containers: the history dimension of "every object placed in the tree is announced to extensions".
   An [Extensions] container is a list of registered extensions (identified by numbers, in registration order);
   [Extensions.add] appends; [Extensions.call] hands an event to every extension registered AT THAT MOMENT, in
   registration order.  A history interleaves registrations and visits on one container.  Executable definitions only. *)
From Coq Require Import List ZArith String Ascii Bool Arith.
From Verif Require Import Lib.Sexp Model.C01_base Gen.C01_tables Model.C01_visitor.
Import ListNotations.
Open Scope string_scope.
Open Scope list_scope.
Open Scope nat_scope.

Inductive hop :=
| HAdd (e : nat)                                   (* container.add(extension e) *)
| HVisit (mname : string) (body : list stmt).      (* visit(mname, ..., extensions=container) *)

Definition container := list nat.
(* Extensions.call for each event of a visit: for event in trace: for extension in registered: extension.hook(...) *)
Definition deliver (c : container) (evs : list event) : list (nat * event) :=
  flat_map (fun ev => map (fun e => (e, ev)) c) evs.
Definition visit_events (mname : string) (body : list stmt) : list event :=
  match run_visit mname body with Ok r => r_events r | Err _ => [] end.

(* the delivery log of each visit of the history, in order *)
Fixpoint run_history (c : container) (h : list hop) : list (list (nat * event)) :=
  match h with
  | [] => []
  | HAdd e :: r => run_history (c ++ [e]) r
  | HVisit m b :: r => deliver c (visit_events m b) :: run_history c r
  end.

(* what extension e received, in order *)
Definition received (e : nat) (log : list (nat * event)) : list event :=
  map snd (filter (fun p => Nat.eqb (fst p) e) log).
Definition adds (h : list hop) : list nat := flat_map (fun o => match o with HAdd e => [e] | HVisit _ _ => [] end) h.
Definition visits (h : list hop) : nat := List.length (filter (fun o => match o with HVisit _ _ => true | HAdd _ => false end) h).
