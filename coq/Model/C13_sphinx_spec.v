(* C13 model, part 8: the FULL written structure of a Sphinx-style docstring: free text, then a field list in any order of
   :param: (optional inline type) / :type: / :var: / :vartype: / :raises: / :returns: / :rtype: fields, descriptions over
   several lines with blank lines inside and after them; its rendering; what parsing should give back (documented
   precedence: inline type, then the :type: field wherever it stands, then the signature) and the decidable predicates of
   the round-trip theorem, including the known gap C13-F8.  Executable definitions only. *)
From Coq Require Import List Ascii String Bool Arith.
From Verif Require Import Model.C13_strings Model.C13_google Model.C13_google_spec Model.C13_sphinx.
Import ListNotations.
Open Scope char_scope.
Open Scope list_scope.
Open Scope nat_scope.

Inductive xfield :=
| XParam (fname : string) (ty : option str) (name : str) (d0 : str) (conts : list str)
| XType (name : str) (ann : str) (blanks : nat)
| XVar (fname : string) (name : str) (d0 : str) (conts : list str)
| XVartype (name : str) (ann : str) (blanks : nat)
| XRaises (fname : string) (exc : str) (d0 : str) (conts : list str)
| XReturns (fname : string) (d0 : str) (conts : list str)
| XRtype (ann : str) (blanks : nat).

Definition s_type : str := s_of ":type ".
Definition s_vartype : str := s_of ":vartype ".
Definition s_rtype_head : str := s_of ":rtype: ".

(* continuation lines are indented by four blanks; a blank line stays empty *)
Definition render_xfield (f : xfield) : list str :=
  match f with
  | XParam fn ty n d0 cs =>
      (colon :: s_of fn ++ (match ty with Some t => sp :: t | None => [] end) ++ sp :: n ++ colon :: sp :: d0) :: map (indent_line 4) cs
  | XType n a b => (s_type ++ n ++ colon :: sp :: a) :: repeat [] b
  | XVar fn n d0 cs => (colon :: s_of fn ++ sp :: n ++ colon :: sp :: d0) :: map (indent_line 4) cs
  | XVartype n a b => (s_vartype ++ n ++ colon :: sp :: a) :: repeat [] b
  | XRaises fn e d0 cs => (colon :: s_of fn ++ sp :: e ++ colon :: sp :: d0) :: map (indent_line 4) cs
  | XReturns fn d0 cs => (colon :: s_of fn ++ colon :: sp :: d0) :: map (indent_line 4) cs
  | XRtype a b => (s_rtype_head ++ a) :: repeat [] b
  end.

Definition render_sphinx_full (text : list str) (fields : list xfield) : list str :=
  text ++ [] :: flat_map render_xfield fields.

(* ---- what parsing should give back *)
(* blank lines after a description belong to nothing: rstrip_blank (Model/C13_strings.v) *)
(* the lines of a description come back without their indentation, joined by single blanks (a blank line inside shows
   as two blanks) *)
Definition xdesc (d0 : str) (cs : list str) : str := join_with [sp] (d0 :: map lstrip_sp (rstrip_blank cs)).

Fixpoint type_of (fs : list xfield) (n : str) : option str :=
  match fs with
  | [] => None
  | XType n' a _ :: r => if str_eqb n' n then Some a else type_of r n
  | _ :: r => type_of r n
  end.
Fixpoint vtype_of (fs : list xfield) (n : str) : option str :=
  match fs with
  | [] => None
  | XVartype n' a _ :: r => if str_eqb n' n then Some a else vtype_of r n
  | _ :: r => vtype_of r n
  end.
Fixpoint rtype_of (fs : list xfield) : option str :=
  match fs with
  | [] => None
  | XRtype a _ :: _ => Some a
  | _ :: r => rtype_of r
  end.

Definition sig_ann (c : pctx) (n : str) : option str := match lookup_param c (lstrip n) with Some (a, _) => a | None => None end.
Definition sig_default (c : pctx) (n : str) : option str := match lookup_param c (lstrip n) with Some (_, v) => v | None => None end.
Definition attr_ann (c : pctx) (n : str) : option str := match lookup_attr c n with Some a => a | None => None end.
Definition ret_ann (c : pctx) (ra : bool) : option str := match parent_return c ra with Some a => a | None => None end.

(* documented precedence: inline type, then the :type: field (anywhere in the list), then the signature *)
Definition xexp_param (c : pctx) (all : list xfield) (f : xfield) : list pitem :=
  match f with
  | XParam _ ty n d0 cs => [mkItem (Some n) (orelse ty (orelse (type_of all n) (sig_ann c n))) (xdesc d0 cs) (sig_default c n)]
  | _ => []
  end.
Definition xexp_var (c : pctx) (all : list xfield) (f : xfield) : list pitem :=
  match f with
  | XVar _ n d0 cs => [mkItem (Some n) (orelse (vtype_of all n) (attr_ann c n)) (xdesc d0 cs) None]
  | _ => []
  end.
Definition xexp_exc (f : xfield) : list pitem :=
  match f with XRaises _ e d0 cs => [mkItem None (Some e) (xdesc d0 cs) None] | _ => [] end.
Definition xexp_ret (c : pctx) (ra : bool) (all : list xfield) (f : xfield) : list pitem :=
  match f with
  | XReturns _ d0 cs => [mkItem (Some []) (orelse (rtype_of all) (ret_ann c ra)) (xdesc d0 cs) None]
  | _ => []
  end.

(* Sphinx's fixed order: text, parameters, attributes, returns (the last :returns: wins), raises *)
Definition expect_sphinx_full (c : pctx) (ra : bool) (text : list str) (fields : list xfield) : list gsec :=
  GText (join_nl text)
  :: sec_of KParams (flat_map (xexp_param c fields) fields)
  ++ sec_of KAttrs (flat_map (xexp_var c fields) fields)
  ++ (match last_opt (flat_map (xexp_ret c ra fields) fields) with Some p => [GItems KReturns None [p]] | None => [] end)
  ++ sec_of KRaises (flat_map xexp_exc fields).

(* ---- well-formedness *)
(* a continuation line: blank, or printable text (deeper indentation allowed) *)
Definition wf_xcont (c : str) : bool := pr c && match c with [] => true | _ => negb (is_empty_line c) end.

(* the last line with text does not end in a blank (the value is stripped) *)
Definition wf_xdesc (d0 : str) (cs : list str) : bool :=
  wf_sline d0 && forallb wf_xcont cs && lns (last (d0 :: rstrip_blank cs) []).

(* does " or " occur (a descriptive type `int or None` is rewritten to `int | None`) *)
Fixpoint has_or (s : str) : bool :=
  match s with [] => false | _ :: r => startswith s_or s || has_or r end.

(* the text of a :type: / :vartype: / :rtype: field: one line, no blank at either end, no " or " *)
Definition wf_tyann (a : str) : bool := wf_sline a && lns a && negb (has_or a).

Definition in_names_x (k : fkind) (fn : string) : bool := in_names k fn.

Definition wf_xfield (f : xfield) : bool :=
  match f with
  | XParam fn ty n d0 cs => in_names FParam fn && (match ty with Some t => wf_tok t | None => true end) && wf_tok n && wf_xdesc d0 cs
  | XType n a _ => wf_tok n && wf_tyann a
  | XVar fn n d0 cs => in_names FVar fn && wf_tok n && wf_xdesc d0 cs
  | XVartype n a _ => wf_tok n && wf_tyann a
  | XRaises fn e d0 cs => in_names FExc fn && wf_tok e && wf_xdesc d0 cs
  | XReturns fn d0 cs => in_names FReturn fn && wf_xdesc d0 cs
  | XRtype a _ => wf_tyann a
  end.

Definition xpnames (fs : list xfield) : list str := flat_map (fun f => match f with XParam _ _ n _ _ => [n] | _ => [] end) fs.
Definition xvnames (fs : list xfield) : list str := flat_map (fun f => match f with XVar _ n _ _ => [n] | _ => [] end) fs.
Definition xtnames (fs : list xfield) : list str := flat_map (fun f => match f with XType n _ _ => [n] | _ => [] end) fs.
Definition xvtnames (fs : list xfield) : list str := flat_map (fun f => match f with XVartype n _ _ => [n] | _ => [] end) fs.
Definition xrtypes (fs : list xfield) : nat := List.length (flat_map (fun f => match f with XRtype _ _ => [tt] | _ => [] end) fs).

(* each name is documented once as parameter, once as attribute, has at most one :type: and one :vartype: field; at most
   one :rtype: *)
Definition wf_sphinx_full (text : list str) (fields : list xfield) : bool :=
  wf_stext text && forallb wf_xfield fields
  && nodupb (xpnames fields) && nodupb (xvnames fields) && nodupb (xtnames fields) && nodupb (xvtnames fields)
  && (xrtypes fields <=? 1).

(* ---- the known gap C13-F8: a :type: (:vartype:) field written AFTER its :param: (:var:) field, no inline type, and
   the parent annotates the name: the field is ignored *)
Definition has_type (n : str) (fs : list xfield) : bool := match type_of fs n with Some _ => true | None => false end.
Definition has_vtype (n : str) (fs : list xfield) : bool := match vtype_of fs n with Some _ => true | None => false end.

Fixpoint gap_F8 (c : pctx) (fs : list xfield) : bool :=
  match fs with
  | [] => false
  | f :: r =>
      (match f with
       | XParam _ None n _ _ => is_some (sig_ann c n) && has_type n r
       | XVar _ n _ _ => is_some (attr_ann c n) && has_vtype n r
       | _ => false
       end) || gap_F8 c r
  end.
