(* C11 model: diff.py:find_breaking_changes over whole packages.

   Objects live in a store (list of nodes, identity = index).  The harness abstraction assigns one index per
   distinct object path of the loaded Griffe tree, including the aliases Griffe materialises for inherited
   class members, so "index in seen" is `old_member.path in seen_paths`.

   Mirrors: _member_incompatibilities (public filter, removal rule), _type_based_yield (seen_paths guard keyed on the
   (old path, new path) pair, alias branch first, kind change, dispatch), _alias_incompatibilities (AliasResolutionError
   and CyclicAliasError both skipped), _class_incompatibilities, _attribute_incompatibilities, _returns_are_compatible,
   _function_incompatibilities (= C10's fdiff_m: the table rules fdiff plus the regenerated old-side members of incompatible_kind, imported), mixins.py:is_public / is_private / is_special /
   is_imported, all_members (= inherited ++ declared), cli.py:check exit code.

   The traversal produces the log of processed (old, new) pairs; the reported breakages are the local
   incompatibilities of the logged pairs (same multiset as the generator yields; order is not modelled).
   Executable definitions only. *)
From Coq Require Import List Arith Bool ZArith String Ascii.
From Verif Require Import Lib.Sexp Model.C10_kinds Gen.C10_tables Model.C10_diff.
From Verif Require Export Gen.C10_rules Model.C10_ext.
From Verif Require Export Model.C11_base Gen.C11_ladder.
Import ListNotations.
Open Scope string_scope. Open Scope list_scope. Open Scope nat_scope.

(* ---- objects ---- *)
(* outcome of `alias.target`: the immediate target, AliasResolutionError, CyclicAliasError *)
Inductive tgt := TRes (i : nat) | TUnres | TCyc.

Inductive body :=
| BModule (exports : option (list string)) (imports : list string) (members : list (string * nat))
| BClass (imports : list string) (bases : list nat) (inherited members : list (string * nat))
| BFunction (s : sig) (ret : option nat)
| BAttribute (value : option nat)
| BAlias (t : tgt).

Record node := mkNode { nname : string; npublic : option bool; nbody : body }.
Definition store := list node.
Definition get (g : store) (i : nat) : option node := nth_error g i.

Definition kind_of (n : node) : okind :=
  match nbody n with BModule _ _ _ => KModule | BClass _ _ _ _ => KClass | BFunction _ _ => KFunction
                   | BAttribute _ => KAttribute | BAlias _ => KAlias end.
Definition is_alias (n : node) := match nbody n with BAlias _ => true | _ => false end.
Definition is_module (n : node) := match nbody n with BModule _ _ _ => true | _ => false end.
Definition is_container (n : node) := match nbody n with BModule _ _ _ | BClass _ _ _ _ => true | _ => false end.

(* ObjectAliasMixin.all_members: {**inherited_members, **members} for classes, members otherwise *)
Definition all_members (n : node) : list (string * nat) :=
  match nbody n with BModule _ _ ms => ms | BClass _ _ inh ms => inh ++ ms | _ => [] end.
Definition imports_of (n : node) : list string :=
  match nbody n with BModule _ im _ => im | BClass im _ _ _ => im | _ => [] end.
Fixpoint lookup (n : string) (ms : list (string * nat)) : option nat :=
  match ms with [] => None | (k, v) :: r => if String.eqb k n then Some v else lookup n r end.
Definition smem (n : string) (l : list string) := existsb (String.eqb n) l.
Definition nmem (n : nat) (l : list nat) := existsb (Nat.eqb n) l.
Definition pmem (i j : nat) (l : list (nat * nat)) := existsb (fun p => Nat.eqb (fst p) i && Nat.eqb (snd p) j) l.

(* ---- mixins.py: is_special / is_private / is_imported / is_public are the definitions the translator regenerates from
   mixins.py (Gen/C11_ladder.v); the model only says what the facts they look at are for member m of parent p ---- *)
Definition is_special (name : string) := is_special_gen name.
Definition is_private (name : string) := is_private_gen name.

Definition facts_of (p m : node) : facts :=
  mkFacts (match npublic m with Some _ => true | None => false end)
          (match npublic m with Some b => b | None => false end)
          (is_alias m) (is_module m) (nname m)
          true                                                         (* members always have a parent *)
          (is_module p)
          (match nbody p with BModule (Some _) _ _ => true | _ => false end)
          (match nbody p with BModule (Some es) _ _ => smem (nname m) es | _ => false end)
          (smem (nname m) (imports_of p)).

(* mixins.py:is_public of member m whose parent is p *)
Definition is_public (p m : node) : bool := is_public_gen (facts_of p m).

(* the ladder as the docstring of is_public words it (spec side), rule by rule:
   1 public attribute set -> its value;  (module exception: a non-underscore module is public)
   2 listed in the parent module's __all__ -> public;  3 parent module defines __all__, not listed -> private;
   4 private name -> private;  5 imported -> private;  6 otherwise public *)
Definition listed_in_all (p m : node) : bool :=
  match nbody p with BModule (Some es) _ _ => smem (nname m) es | _ => false end.
Definition defines_all (p : node) : bool := match nbody p with BModule (Some _) _ _ => true | _ => false end.
Definition is_public_doc (p m : node) : bool :=
  match npublic m with
  | Some b => b
  | None =>
    if negb (is_alias m) && is_module m && negb (starts_with "_" (nname m)) then true
    else if listed_in_all p m then true
    else if defines_all p then false
    else if is_private (nname m) then false
    else if smem (nname m) (imports_of p) then false
    else true
  end.

Definition tgt_of (n : node) (self : nat) : tgt := match nbody n with BAlias t => t | _ => TRes self end.

(* ---- breakages ---- *)
Inductive breakage :=
| BRemoved (o : nat)                 (* OBJECT_REMOVED, obj = the old member *)
| BKind (n : nat)                    (* OBJECT_CHANGED_KIND, obj = the new member *)
| BBase (n : nat)                    (* CLASS_REMOVED_BASE, obj = the new class *)
| BValue (n : nat)                   (* ATTRIBUTE_CHANGED_VALUE, obj = the new attribute *)
| BParam (n : nat) (b : brk)         (* the six parameter breakages of C10, obj = the new function *)
| BReturn (n : nat).                 (* RETURN_CHANGED_TYPE, obj = the new function *)

Inductive ev := EHead (i j : nat) | EMembers (i j : nat).
Inductive res := Ok (seen : list (nat * nat)) (log : list ev) | ErrBad | OutOfFuel.

Fixpoint natlist_eqb (a b : list nat) : bool :=
  match a, b with [] , [] => true | x :: r, y :: s => Nat.eqb x y && natlist_eqb r s | _, _ => false end.
(* _returns_are_compatible: only "had an annotation, lost it" is incompatible *)
Definition returns_compatible (o n : option nat) : bool :=
  match o, n with None, _ => true | Some _, None => false | Some _, Some _ => true end.

Section Diff.
Variables go gn : store.

(* what is yielded while the pair itself is examined (EHead) or while its members are scanned (EMembers) *)
Definition local_head (oi nj : node) (j : nat) : list breakage :=
  if is_alias oi || is_alias nj then []
  else if negb (okind_eqb (kind_of oi) (kind_of nj)) then [BKind j]
  else match nbody oi, nbody nj with
       | BClass _ ob _ _, BClass _ nb _ _ =>
           if negb (natlist_eqb nb ob) && Nat.ltb (List.length nb) (List.length ob) then [BBase j] else []
       | BFunction os oret, BFunction ns nret =>
           map (BParam j) (fdiff_m os ns) ++ (if returns_compatible oret nret then [] else [BReturn j])
       | BAttribute ov, BAttribute nv => if odef_eqb ov nv then [] else [BValue j]
       | _, _ => []
       end.
Definition removed_member (oi nj : node) (nm : string * nat) : list breakage :=
  match get go (snd nm) with
  | Some mo => if is_public oi mo then match lookup (fst nm) (all_members nj) with None => [BRemoved (snd nm)] | Some _ => [] end
               else []
  | None => [] end.
Definition local_members (oi nj : node) : list breakage := flat_map (removed_member oi nj) (all_members oi).
Definition local (e : ev) : list breakage :=
  match e with
  | EHead i j => match get go i, get gn j with Some oi, Some nj => local_head oi nj j | _, _ => [] end
  | EMembers i j => match get go i, get gn j with Some oi, Some nj => local_members oi nj | _, _ => [] end
  end.
Definition breakages (log : list ev) : list breakage := flat_map local log.

Section Step.
Variable rec : list (nat * nat) -> nat -> nat -> res.

(* the loop of _member_incompatibilities over old_obj.all_members; p = old_obj, nms = new_obj.all_members *)
Fixpoint mloop (p : node) (nms ms : list (string * nat)) (seen : list (nat * nat)) : res :=
  match ms with
  | [] => Ok seen []
  | (n, m) :: r =>
    match get go m with
    | None => ErrBad
    | Some mo =>
      if negb (is_public p mo) then mloop p nms r seen
      else match lookup n nms with
           | None => mloop p nms r seen                 (* ObjectRemovedBreakage: accounted for by local_members *)
           | Some m' =>
             match rec seen m m' with
             | Ok s l => match mloop p nms r s with Ok s2 l2 => Ok s2 (l ++ l2) | e => e end
             | e => e
             end
           end
    end
  end.

(* _type_based_yield (+ _alias_incompatibilities, _class_incompatibilities) *)
Definition step (seen : list (nat * nat)) (i j : nat) : res :=
  if pmem i j seen then Ok seen []
  else match get go i, get gn j with
       | Some oi, Some nj =>
         let seen1 := (i, j) :: seen in
         if is_alias oi || is_alias nj then
           match tgt_of oi i with
           | TUnres | TCyc => Ok seen1 [EHead i j]          (* AliasResolutionError / CyclicAliasError: skipped *)
           | TRes i' =>
             match tgt_of nj j with
             | TUnres | TCyc => Ok seen1 [EHead i j]
             | TRes j' => match rec seen1 i' j' with Ok s l => Ok s (EHead i j :: l) | e => e end
             end
           end
         else if negb (okind_eqb (kind_of oi) (kind_of nj)) then Ok seen1 [EHead i j]
         else if is_container oi then
           match mloop oi (all_members nj) (all_members oi) seen1 with
           | Ok s l => Ok s (EHead i j :: EMembers i j :: l)
           | e => e end
         else Ok seen1 [EHead i j]
       | _, _ => ErrBad
       end.
End Step.

Fixpoint tby (fuel : nat) : list (nat * nat) -> nat -> nat -> res :=
  match fuel with 0 => fun _ _ _ => OutOfFuel | S f => step (tby f) end.

(* find_breaking_changes(old_root, new_root): _member_incompatibilities with a fresh seen_paths *)
Definition fbc (fuel ri rj : nat) : res :=
  match get go ri, get gn rj with
  | Some ro, Some rn =>
    match mloop (tby fuel) ro (all_members rn) (all_members ro) [] with
    | Ok s l => Ok s (EMembers ri rj :: l)
    | e => e end
  | _, _ => ErrBad
  end.

End Diff.

Definition default_fuel (go gn : store) := S (List.length go * List.length gn).

(* cli.py:check -- 0 when nothing is reported, 1 when something is (ErrBad / OutOfFuel do not arise on well-formed stores) *)
Definition check_exit (go gn : store) (r : res) : nat :=
  match r with Ok _ log => match breakages go gn log with [] => 0 | _ => 1 end | _ => 1 end.

(* ---- well-formed stores (what the abstraction of a Griffe tree guarantees) ---- *)
Fixpoint nodup_keys (ms : list (string * nat)) : bool :=
  match ms with [] => true | (k, _) :: r => negb (existsb (fun kv => String.eqb (fst kv) k) r) && nodup_keys r end.
Definition ids_ok (g : store) (n : node) : bool :=
  forallb (fun nm => Nat.ltb (snd nm) (List.length g)) (all_members n) &&
  match nbody n with BAlias (TRes t) => Nat.ltb t (List.length g) | _ => true end.
Definition sig_ok (n : node) : bool := match nbody n with BFunction s _ => nodup_names s | _ => true end.
Definition wf_store (g : store) : bool :=
  forallb (fun n => ids_ok g n && nodup_keys (all_members n) && sig_ok n) g.
(* ---- s-expression interface ---- *)
Definition dec_members : sexp -> option (list (string * nat)) :=
  as_list_of (fun s => match s with SList [k; v] => do k' <- as_str k; do v' <- as_nat v; Some (k', v') | _ => None end).
Definition dec_strs : sexp -> option (list string) := as_list_of as_str.
Definition dec_tgt (s : sexp) : option tgt :=
  match s with
  | SList [SStr "res"; i] => do i' <- as_nat i; Some (TRes i')
  | SList [SStr "unres"] => Some TUnres
  | SList [SStr "cyc"] => Some TCyc
  | _ => None end.
Definition dec_body (s : sexp) : option body :=
  match s with
  | SList [SStr "module"; ex; im; ms] =>
      do ex' <- as_opt dec_strs ex; do im' <- dec_strs im; do ms' <- dec_members ms; Some (BModule ex' im' ms')
  | SList [SStr "class"; im; bs; inh; ms] =>
      do im' <- dec_strs im; do bs' <- as_list_of as_nat bs; do inh' <- dec_members inh; do ms' <- dec_members ms;
      Some (BClass im' bs' inh' ms')
  | SList [SStr "function"; sg; ret] => do sg' <- dec_sig sg; do ret' <- as_opt as_nat ret; Some (BFunction sg' ret')
  | SList [SStr "attribute"; v] => do v' <- as_opt as_nat v; Some (BAttribute v')
  | SList [SStr "alias"; t] => do t' <- dec_tgt t; Some (BAlias t')
  | _ => None end.
Definition dec_node (s : sexp) : option node :=
  match s with
  | SList [n; p; b] => do n' <- as_str n; do p' <- as_opt as_bool p; do b' <- dec_body b; Some (mkNode n' p' b')
  | _ => None end.
Definition dec_store : sexp -> option store := as_list_of dec_node.
Definition enc_breakage (b : breakage) : sexp :=
  match b with
  | BRemoved o => SList [SStr "removed"; SStr "old"; of_nat o]
  | BKind n => SList [SStr "kind"; SStr "new"; of_nat n]
  | BBase n => SList [SStr "base"; SStr "new"; of_nat n]
  | BValue n => SList [SStr "value"; SStr "new"; of_nat n]
  | BParam n p => SList [SStr "param"; SStr "new"; of_nat n; enc_brk p]
  | BReturn n => SList [SStr "return"; SStr "new"; of_nat n]
  end.
Definition enc_ev (e : ev) : sexp :=
  match e with EHead i j => SList [SStr "head"; of_nat i; of_nat j] | EMembers i j => SList [SStr "members"; of_nat i; of_nat j] end.

Definition run_C11 (s : sexp) : sexp :=
  match s with
  | SList [SStr "diff"; o; n; ri; rj] =>
      match dec_store o, dec_store n, as_nat ri, as_nat rj with
      | Some go, Some gn, Some ri', Some rj' =>
          let r := fbc go gn (default_fuel go gn) ri' rj' in
          let flags := SList [of_bool (wf_store go && wf_store gn); of_nat (check_exit go gn r)] in
          match r with
          | Ok seen log => SList [SStr "ok"; SList (map enc_breakage (breakages go gn log)); flags; SList (map enc_ev log)]
          | ErrBad => SList [SStr "bad-store"; SList []; flags; SList []]
          | OutOfFuel => SList [SStr "out-of-fuel"; SList []; flags; SList []]
          end
      | _, _, _, _ => bad_input end
  | SList [SStr "public"; p; ms] =>
      match dec_node p, as_list_of dec_node ms with
      | Some p', Some ms' => SList (map (fun m => SList [of_bool (is_public p' m); of_bool (is_public_doc p' m)]) ms')
      | _, _ => bad_input end
  | SList [SStr "names"; ns] =>
      match dec_strs ns with
      | Some ns' => SList (map (fun n => SList [of_bool (is_private n); of_bool (is_special n)]) ns')
      | None => bad_input end
  | _ => bad_input
  end.
