(* C01: the lines collection has a history.  A LinesCollection maps file paths to the lines of their text; every static
   load of a module stores the text it has just read (`self.lines_collection[path] = code.splitlines()`), and
   Object.lines / Object.source / Docstring.source slice what the collection holds when they are asked.  A collection
   outlives a load: the same loader loads again after the file changed, or a new loader is given the collection of an
   earlier one.  Executable definitions only. *)
From Coq Require Import List String Ascii Bool Arith.
From Verif Require Import Lib.Sexp Model.C01_base Gen.C01_tables Model.C01_visitor Model.C01_layout Model.C01_dedent.
Import ListNotations.
Open Scope string_scope.
Open Scope list_scope.

Definition collection := list (string * lines).
Inductive lkind :=
| LFresh      (* a loader with a collection of its own *)
| LSame       (* the loader of the previous load again (reload) *)
| LShared.    (* a new loader that was given the collection of the previous one *)
Record lstep := mkStep { s_path : string; s_text : lines; s_kind : lkind }.

(* one load: the text just read is stored under the path, replacing whatever the collection held for it *)
Definition load_step (lc : collection) (s : lstep) : collection :=
  assign (s_path s) (s_text s) (match s_kind s with LFresh => [] | _ => lc end).
(* what the collection holds for the loaded path after each load of the history *)
Fixpoint run_lines (lc : collection) (h : list lstep) : list (option lines) :=
  match h with
  | [] => []
  | s :: r => let lc' := load_step lc s in lookup (s_path s) lc' :: run_lines lc' r
  end.
Fixpoint final_collection (lc : collection) (h : list lstep) : collection :=
  match h with [] => lc | s :: r => final_collection (load_step lc s) r end.

(* Object.source of an object spanning a..b of file p, asked when the collection is lc *)
Definition source_from (lc : collection) (p : string) (a b : nat) : option lines :=
  match lookup p lc with Some t => Some (object_source t a b) | None => None end.

Definition dec_lstep (s : sexp) : option lstep :=
  match s with
  | SList [SStr p; t; SStr k] =>
      do t' <- as_list_of as_str t;
      Some (mkStep p t' (if String.eqb k "load" then LFresh else if String.eqb k "reload" then LSame else LShared))
  | _ => None
  end.
