(* C18 model, part 3: the three shapes of the merging code in extensions/dataclasses.py.

   Which one the tree under test has is read off its source on every run (harness/translate/c18_flags.py writes
   Gen/C18_flags.v : current_mode).

     FlatFilterFirst   each decorated class of the reversed MRO contributes its own parameters once; ClassVar and
                       field(init=False) entries are dropped per class BEFORE the de-duplication by name
                       (findings C18-F3 and C18-F6)
     FlatFilterLast    the own entries keep a flag "is an __init__ parameter"; the de-duplication by name comes first,
                       the filter afterwards (repairs F3)
     Accumulated       _dataclass_fields: every class of the reversed MRO contributes ALL the fields it inherited
                       itself again (a dict per class, like __dataclass_fields__), an undecorated class hands on the
                       dict of the first dataclass of its MRO; filter afterwards (repairs F3 and F6)

   Everything is stated over a function [own] : class index -> the entries _dataclass_parameters returns for that
   class, so that the state machine of Model/C18_session.v (which answers [own] from its memo) and the stateless
   reading (own_static) share the definitions.  Executable definitions only. *)
From Coq Require Import List Arith Bool ZArith String.
From Verif Require Import Lib.Sexp Model.C18_dataclass.
Import ListNotations.
Open Scope list_scope. Open Scope nat_scope.

Inductive mode := FlatFilterFirst | FlatFilterLast | Accumulated.
Definition filter_after (m : mode) : bool := match m with FlatFilterFirst => false | _ => true end.
Definition accumulates (m : mode) : bool := match m with Accumulated => true | _ => false end.

(* an entry of _dataclass_parameters: the Parameter and whether it is an __init__ parameter *)
Record gfld := mkg { g_par : param; g_in : bool }.
Definition gkey (g : gfld) : name := p_name (g_par g).

Definition is_classvar (a : ann) : bool := match a with AClassVar => true | _ => false end.

(* the loop of _dataclass_parameters over class_.members, keeping the entries that are no parameters *)
Fixpoint g_scan_all (kw : bool) (body : list stmt) : list gfld :=
  match body with
  | [] => []
  | SDef _ _ :: r => g_scan_all kw r
  | SAnnProp _ :: r => g_scan_all kw r
  | SAttr n a v :: r =>
      match a with
      | ANone => g_scan_all kw r
      | AKwOnly => g_scan_all true r
      | _ => mkg (mkp n (if g_kw_true v || (kw && negb (g_kw_false v)) then KO else PK) (g_default v))
                 (negb (is_classvar a) && negb (g_init_false v))
             :: g_scan_all kw r
      end
  end.

Definition g_own_all (c : cls) : list gfld :=
  match c_dec c with
  | None => []
  | Some d => g_scan_all (opt_is (d_kw d) true) (g_body c)
  end.

Definition decorated_at (t : table) (k : nat) : bool :=
  match nth_error t k with Some b => decorated b | None => false end.
Definition own_static (t : table) (k : nat) : list gfld :=
  match nth_error t k with Some b => g_own_all b | None => [] end.
(* only classes that carry the decorator are asked for their entries *)
Definition dec_own (t : table) (own : nat -> list gfld) (k : nat) : list gfld :=
  if decorated_at t k then own k else [].

(* _dataclass_fields(class_) of the Accumulated shape; [rec] = the recursive call *)
Definition accum_body (t : table) (own : nat -> list gfld) (rec : nat -> list gfld) (j : nat) (b : cls) : list gfld :=
  if decorated b
  then merge gkey (fold_left (fun acc k => merge gkey acc (rec k)) (rev (c_mro b)) []) (own j)
  else match find (decorated_at t) (c_mro b) with Some k => rec k | None => [] end.
(* explicit fuel for the recursion through the MRO lists; [] when it runs out.  Proofs/C18_modes.v shows that
   S (length t) is never exhausted on tables whose MRO lists point to earlier classes (any Python module). *)
Fixpoint accum (t : table) (own : nat -> list gfld) (fuel : nat) (j : nat) : list gfld :=
  match fuel with
  | 0 => []
  | S f => match nth_error t j with
           | None => []
           | Some b => accum_body t own (accum t own f) j b
           end
  end.

(* the three lists of _reorder_parameters (the model has no positional-only parameters: dataclasses generates none) *)
Inductive pgroup := GPosOnly | GPosKw | GKwOnly.
Definition group_filter (g : pgroup) (l : list param) : list param :=
  match g with GPosOnly => [] | GPosKw => filter is_pk l | GKwOnly => filter is_ko l end.

(* GriffeLoader._post_load and the class branch of _apply_recursively as sequences of steps (translated from the source) *)
Inductive pl_step := PExports | PWildcards | PEvent.
Inductive cl_step := CLabel | CGuard | CInit | CPrune | CNested.

Definition partition_params (l : list param) : list param := filter is_pk l ++ filter is_ko l.

(* the parameters after self of the synthesised __init__ of class i *)
Definition gm_params (m : mode) (t : table) (own : nat -> list gfld) (i : nat) (c : cls) : list param :=
  match m with
  | FlatFilterFirst =>
      g_reorder (flat_map (fun k => map g_par (filter g_in (dec_own t own k))) (rev (c_mro c) ++ [i]))
  | FlatFilterLast =>
      partition_params (map g_par (filter g_in (dedup gkey (flat_map (dec_own t own) (rev (c_mro c) ++ [i])))))
  | Accumulated =>
      partition_params (map g_par (filter g_in (dedup gkey (accum t own (S (List.length t)) i))))
  end.

Definition gm_init_member (m : mode) (t : table) (i : nat) (c : cls) : init_member :=
  match c_hw c with
  | Some _ => Handwritten
  | None => if decorated c then (if init_false c then Absent else Synth (gm_params m t (own_static t) i c)) else Absent
  end.

(* the known gaps that remain in each shape; the vector keeps its five positions [G2; G3; G4; G6; G7] *)
Definition gaps_m (m : mode) (t : table) (e : env) (i : nat) (c : cls) : list bool :=
  [G2 t c; negb (filter_after m) && G3 t c; G4 t c; negb (accumulates m) && G6 t e i c; G7 t c].
Definition known_gap_m (m : mode) (t : table) (e : env) (i : nat) (c : cls) : bool :=
  existsb (fun b => b) (gaps_m m t e i c).

(* the MRO lists are those of a Python module: they point to classes defined earlier, and contain the MRO of each of
   their members (a linearisation extends the linearisations of the bases) *)
Definition subset_nat (l m : list nat) : bool := forallb (fun k => existsb (Nat.eqb k) m) l.
Definition wf_at (t : table) (i : nat) (c : cls) : bool :=
  forallb (fun j => Nat.ltb j i && match nth_error t j with Some b => subset_nat (c_mro b) (c_mro c) | None => false end) (c_mro c).
Fixpoint wf_from (t : table) (i : nat) (l : list cls) : bool :=
  match l with [] => true | c :: r => wf_at t i c && wf_from t (S i) r end.
Definition wf_mro (t : table) : bool := wf_from t 0 t.
