(* C08 model: s-expression interface (run_C08).  Executable definitions only. *)
From Coq Require Import List ZArith String Ascii Bool Arith.
From Verif Require Import Lib.Sexp Gen.C08_tables Model.C08_json Model.C08_full Model.C08_text Model.C08_links Model.C08_hook Model.C08_entry.
Import ListNotations.
Open Scope string_scope.
Open Scope list_scope.

(* ---- encoders to sexp *)
Definition sx_pair {A} (f : A -> sexp) (kv : string * A) : sexp := SList [SStr (fst kv); f (snd kv)].

Fixpoint sx_json (j : json) : sexp :=
  match j with
  | JNull => SList [SStr "n"]
  | JBool b => SList [SStr "b"; of_bool b]
  | JNum z => SList [SStr "i"; SInt z]
  | JStr s => SList [SStr "s"; SStr s]
  | JArr l => SList [SStr "a"; SList (map sx_json l)]
  | JObj kvs => SList [SStr "o"; SList (map (fun kv => match kv with (k, v) => SList [SStr k; sx_json v] end) kvs)]
  end.

Definition sx_link (p : plink) : sexp :=
  SInt (match p with LNone => 0 | LScope => 1 | LPrev => 2 | LStr => 3 | LOther => 4 end)%Z.

Fixpoint sx_ev (e : ev) : sexp :=
  match e with
  | VNone => SList [SStr "none"]
  | VBool b => SList [SStr "bool"; of_bool b]
  | VStr s => SList [SStr "str"; SStr s]
  | VEnum s => SList [SStr "enum"; SStr s]
  | VInt z => SList [SStr "int"; SInt z]
  | VList l => SList [SStr "list"; SList (map sx_ev l)]
  | VName n p => SList [SStr "name"; SStr n; sx_link p]
  | VNode c fs => SList [SStr "node"; SStr c; SList (map (fun kv => match kv with (k, v) => SList [SStr k; sx_ev v] end) fs)]
  end.

Definition sx_optz (o : option Z) : sexp := of_opt SInt o.
Definition sx_doc (d : docstring) : sexp := SList [SStr (d_value d); sx_optz (d_lineno d); sx_optz (d_endlineno d)].
Definition sx_deco (d : decorator) : sexp := SList [sx_ev (dc_value d); sx_optz (dc_lineno d); sx_optz (dc_endlineno d)].
Definition sx_param (p : parameter) : sexp :=
  SList [SStr (p_name p); sx_ev (p_annotation p); of_opt SStr (p_kind p); sx_ev (p_default p); of_opt sx_doc (p_doc p)].
Definition sx_fpath (f : fpath) : sexp :=
  match f with FPNone => SList [SStr "none"] | FPStr s => SList [SStr "str"; SStr s]
             | FPList l => SList [SStr "list"; SList (map SStr l)] end.
Definition sx_extra (x : extra) : sexp :=
  match x with
  | XModule fp => SList [SStr "module"; sx_fpath fp]
  | XClass b d => SList [SStr "class"; SList (map sx_ev b); SList (map sx_deco d)]
  | XFunction d p r => SList [SStr "function"; SList (map sx_deco d); SList (map sx_param p); sx_ev r]
  | XAttribute v a => SList [SStr "attribute"; sx_ev v; sx_ev a]
  end.
Fixpoint sx_tree (t : tree) : sexp :=
  match t with
  | TAlias n tp ln eln => SList [SStr "alias"; SStr n; SStr tp; sx_optz ln; sx_optz eln]
  | TObj n ln eln doc ls ms x =>
      SList [SStr "obj"; SStr n; sx_optz ln; sx_optz eln; of_opt sx_doc doc; SList (map SStr ls);
             SList (map (fun km => match km with (k, m) => SList [SStr k; sx_tree m] end) ms); sx_extra x]
  end.

Definition sx_err (e : err) : sexp :=
  SStr (match e with EKey k => append "KeyError:" k | EType => "TypeError" | EValue => "ValueError" | EAttr => "AttributeError"
                   | EBuiltin => "BuiltinModuleError" | EUnmodelled => "unmodelled" end).

(* ---- decoders from sexp *)
Definition opt_map' {A B} (f : A -> option B) : list A -> option (list B) := map_opt' f.

Fixpoint dx_json (s : sexp) : option json :=
  match s with
  | SList [SStr tag] => if String.eqb tag "n" then Some JNull else None
  | SList [SStr tag; a] =>
      if String.eqb tag "b" then (do b <- as_bool a; Some (JBool b))
      else if String.eqb tag "i" then (do z <- as_int a; Some (JNum z))
      else if String.eqb tag "s" then (do x <- as_str a; Some (JStr x))
      else if String.eqb tag "a" then
        match a with SList l => do l' <- opt_map' dx_json l; Some (JArr l') | _ => None end
      else if String.eqb tag "o" then
        match a with
        | SList l => do l' <- opt_map' (fun kv => match kv with
                                                   | SList [SStr k; v] => do v' <- dx_json v; Some (k, v')
                                                   | _ => None end) l;
                     Some (JObj l')
        | _ => None end
      else None
  | _ => None
  end.

Definition dx_link (s : sexp) : option plink :=
  match s with
  | SInt z => if Z.eqb z 0 then Some LNone else if Z.eqb z 1 then Some LScope else if Z.eqb z 2 then Some LPrev
              else if Z.eqb z 3 then Some LStr else if Z.eqb z 4 then Some LOther else None
  | _ => None end.

Fixpoint dx_ev (s : sexp) : option ev :=
  match s with
  | SList [SStr tag] => if String.eqb tag "none" then Some VNone else None
  | SList [SStr tag; a] =>
      if String.eqb tag "bool" then (do b <- as_bool a; Some (VBool b))
      else if String.eqb tag "str" then (do x <- as_str a; Some (VStr x))
      else if String.eqb tag "enum" then (do x <- as_str a; Some (VEnum x))
      else if String.eqb tag "int" then (do z <- as_int a; Some (VInt z))
      else if String.eqb tag "list" then
        match a with SList l => do l' <- opt_map' dx_ev l; Some (VList l') | _ => None end
      else None
  | SList [SStr tag; SStr n; a] =>
      if String.eqb tag "name" then (do p <- dx_link a; Some (VName n p))
      else if String.eqb tag "node" then
        match a with
        | SList l => do l' <- opt_map' (fun kv => match kv with
                                                   | SList [SStr k; v] => do v' <- dx_ev v; Some (k, v')
                                                   | _ => None end) l;
                     Some (VNode n l')
        | _ => None end
      else None
  | _ => None
  end.

Definition dx_optz (s : sexp) : option (option Z) := as_opt as_int s.
Definition dx_doc (s : sexp) : option docstring :=
  match s with
  | SList [SStr v; a; b] => do a' <- dx_optz a; do b' <- dx_optz b; Some (mkDoc v a' b')
  | _ => None end.
Definition dx_deco (s : sexp) : option decorator :=
  match s with
  | SList [v; a; b] => do v' <- dx_ev v; do a' <- dx_optz a; do b' <- dx_optz b; Some (mkDeco v' a' b')
  | _ => None end.
Definition dx_param (s : sexp) : option parameter :=
  match s with
  | SList [SStr n; a; k; d; doc] =>
      do a' <- dx_ev a; do k' <- as_opt as_str k; do d' <- dx_ev d; do doc' <- as_opt dx_doc doc;
      Some (mkParam n a' k' d' doc')
  | _ => None end.
Definition dx_fpath (s : sexp) : option fpath :=
  match s with
  | SList [SStr tag] => if String.eqb tag "none" then Some FPNone else None
  | SList [SStr tag; a] =>
      if String.eqb tag "str" then (do x <- as_str a; Some (FPStr x))
      else if String.eqb tag "list" then (do l <- as_list_of as_str a; Some (FPList l))
      else None
  | _ => None end.
Definition dx_extra (s : sexp) : option extra :=
  match s with
  | SList [SStr tag; a] => if String.eqb tag "module" then (do f <- dx_fpath a; Some (XModule f)) else None
  | SList [SStr tag; a; b] =>
      if String.eqb tag "class" then (do a' <- as_list_of dx_ev a; do b' <- as_list_of dx_deco b; Some (XClass a' b'))
      else if String.eqb tag "attribute" then (do a' <- dx_ev a; do b' <- dx_ev b; Some (XAttribute a' b'))
      else None
  | SList [SStr tag; a; b; c] =>
      if String.eqb tag "function"
      then (do a' <- as_list_of dx_deco a; do b' <- as_list_of dx_param b; do c' <- dx_ev c; Some (XFunction a' b' c'))
      else None
  | _ => None end.

Fixpoint dx_tree (s : sexp) : option tree :=
  match s with
  | SList [SStr tag; SStr n; SStr tp; a; b] =>
      if String.eqb tag "alias" then (do a' <- dx_optz a; do b' <- dx_optz b; Some (TAlias n tp a' b')) else None
  | SList [SStr tag; SStr n; a; b; doc; ls; ms; x] =>
      if String.eqb tag "obj" then
        do a' <- dx_optz a; do b' <- dx_optz b; do doc' <- as_opt dx_doc doc; do ls' <- as_list_of as_str ls;
        do x' <- dx_extra x;
        match ms with
        | SList l => do ms' <- opt_map' (fun km => match km with
                                                    | SList [SStr k; m] => do m' <- dx_tree m; Some (k, m')
                                                    | _ => None end) l;
                     Some (TObj n a' b' doc' ls' ms' x')
        | _ => None end
      else None
  | _ => None
  end.

Definition dx_section (s : sexp) : option section :=
  match s with
  | SList [SStr k; t; v] => do t' <- as_opt as_str t; do v' <- dx_json v; Some (mkSection k t' v')
  | _ => None end.
Definition dx_finfo (s : sexp) : option (string * finfo) :=
  match s with
  | SList [SStr path; fp; rel; relp; secs; psecs] =>
      do fp' <- as_opt dx_json fp; do rel' <- as_opt dx_json rel; do relp' <- as_opt dx_json relp;
      do secs' <- as_list_of dx_section secs;
      do psecs' <- as_list_of (fun x => match x with
                                        | SList [SStr n; l] => do l' <- as_list_of dx_section l; Some (n, l')
                                        | _ => None end) psecs;
      Some (path, mkFinfo fp' rel' relp' secs' psecs')
  | _ => None end.

(* ---- commands *)
Definition sx_decoded (r : res pv) : sexp :=
  match r with
  | Err e => SList [SStr "err"; sx_err e]
  | Ok (PTree t) => SList [SStr "tree"; sx_tree t; sx_json (enc_min t)]
  | Ok (PExpr e) => SList [SStr "expr"; sx_ev e; sx_json (enc_ev e)]
  | Ok (PParam p) => SList [SStr "param"; sx_param p; sx_json (enc_param p)]
  | Ok _ => SList [SStr "plain"]
  end.

Definition flags (t : tree) : sexp :=
  SList [of_bool (rep t); of_bool (gap_doc t); of_bool (gap_expr t); of_bool (has_docstring t); of_bool (canon_tree t)].

Definition run_tree (t : tree) : sexp :=
  let j := enc_min t in
  SList [sx_json j; sx_decoded (decode j); flags t; sx_tree (reload t); SStr (dumps j)].

(* full mode with computed derived values: [cwd parts; package file path?; module file path?; dotted prefix] *)
Definition dx_fctx (s : sexp) : option fctx :=
  match s with
  | SList [cwd; pkg; md; SStr prefix] =>
      do cwd' <- as_list_of as_str cwd; do pkg' <- as_opt dx_fpath pkg; do md' <- as_opt dx_fpath md;
      Some (mkFctx cwd' pkg' md' prefix)
  | _ => None end.

Definition sx_resjson (r : res json) : sexp :=
  match r with Ok j => SList [SStr "ok"; sx_json j; SStr (dumps j)] | Err e => SList [SStr "enc-err"; sx_err e] end.

(* [document; decoded; the full document of the reloaded tree seen from the same place] *)
Definition run_fullD (c : fctx) (t : tree) : sexp :=
  match enc_fullD c t with
  | Err e => SList [SStr "enc-err"; sx_err e]
  | Ok j => SList [SStr "ok"; sx_json j; sx_decoded (decode j); sx_resjson (enc_fullD c (reload t)); SStr (dumps j)]
  end.

Definition sx_pres (r : pres json) : sexp :=
  match r with
  | POk j _ => SList [SStr "ok"; sx_json j]
  | PErr => SList [SStr "err"]
  | PUnmod => SList [SStr "unmodelled"]
  | PFuel => SList [SStr "fuel"]
  end.

Definition sx_tres (r : tres) : sexp :=
  match r with
  | TOk v => sx_decoded (Ok v)
  | TErr e => sx_decoded (Err e)
  | TJson => SList [SStr "json-error"]
  | TUnmod => SList [SStr "err"; SStr "unmodelled"]
  end.

(* pathlib on one (normalised) path string and a base: [str(Path(s)); relative_to(base)?; parent; parent.parent] *)
Definition run_path (base s : string) : sexp :=
  SList [SStr (unparts (parts s));
         of_opt (fun r => SStr (unparts r)) (relative_parts (parts base) (parts s));
         SStr (unparts (parent_parts (parts s)));
         SStr (unparts (parent_parts (parent_parts (parts s))))].

Definition run_full (fs : list (string * finfo)) (t : tree) : sexp :=
  let F := fun p => match lookup p fs with Some fi => fi | None => default_finfo end in
  match enc_full F EmptyString t with
  | Err e => SList [SStr "enc-err"; sx_err e]
  | Ok j => SList [SStr "ok"; sx_json j; sx_decoded (decode j)]
  end.

Definition run_C08 (s : sexp) : sexp :=
  match s with
  | SList [SStr cmd; a] =>
      if String.eqb cmd "clean" then match a with SStr x => SStr (clean x) | _ => bad_input end
      else if String.eqb cmd "tree" then match dx_tree a with Some t => run_tree t | None => bad_input end
      else if String.eqb cmd "json" then match dx_json a with Some j => sx_decoded (decode j) | None => bad_input end
      else if String.eqb cmd "dumps" then match dx_json a with Some j => SStr (dumps j) | None => bad_input end
      else if String.eqb cmd "dumps-cli" then match dx_json a with Some j => SStr (dumps_cli j) | None => bad_input end
      else if String.eqb cmd "loads" then match a with SStr x => sx_pres (loads x) | _ => bad_input end
      else if String.eqb cmd "loads-decode" then match a with SStr x => sx_tres (loads_hook x) | _ => bad_input end
      else if String.eqb cmd "expr" then
        match dx_ev a with
        | Some e => SList [sx_json (enc_ev e); sx_decoded (decode (enc_ev e)); of_bool (wf_slot e); of_bool (has_enum e);
                           sx_ev (reload_ev e); sx_ev (attach_top (reload_ev e))]
        | None => bad_input end
      else bad_input
  | SList [SStr cmd; a; b] =>
      if String.eqb cmd "full" then
        match as_list_of dx_finfo a, dx_tree b with
        | Some fs, Some t => run_full fs t
        | _, _ => bad_input end
      else if String.eqb cmd "fullD" then
        match dx_fctx a, dx_tree b with
        | Some c, Some t => run_fullD c t
        | _, _ => bad_input end
      else if String.eqb cmd "from-json" then
        match a, b with
        | SStr k, SStr x => sx_tres (from_json_text (if String.eqb k "object" then WObject else WKind k) x)
        | _, _ => bad_input end
      else if String.eqb cmd "path" then
        match a, b with SStr base, SStr x => run_path base x | _, _ => bad_input end
      else bad_input
  | _ => bad_input
  end.
