(* C09 -- how a docstring reaches a parser while the full dump is produced (Docstring.as_dict(full=True) -> parsed ->
   parse(docstring, parser, **options)): Python keyword binding for the entry points, the dispatch of docstrings/parsers.py
   `parse`, and `parse_auto`'s second round.  Signatures and the `parsers` table are regenerated from the sources
   (Gen/C09_parse.v).  Executable definitions only. *)
From Coq Require Import List ZArith String Ascii Bool Arith.
From Verif Require Import Lib.Sexp Model.C09_json Gen.C09_parse.
Import ListNotations.
Open Scope string_scope.
Open Scope list_scope.
Open Scope nat_scope.

(* f(<positional arguments>, **{k: ... for k in keys}): TypeError when a key names a parameter already given positionally
   ("got multiple values for argument") or is no keyword-only parameter while f has no **kwargs ("unexpected keyword argument") *)
Definition key_binds (s : fsig) (k : string) : bool :=
  negb (str_in k (fs_positional s)) && (str_in k (fs_kwonly s) || fs_varkw s).
Definition call_ok (s : fsig) (keys : list string) : bool := forallb (key_binds s) keys.

(* what lands in the function's **kwargs *)
Definition rest (s : fsig) (keys : list string) : list string := filter (fun k => negb (str_in k (fs_kwonly s))) keys.

Inductive outcome :=
| Text                                         (* one text section *)
| Style (style : string) (options : list string)  (* the parser of that style runs with these options *)
| RaiseTypeError                               (* keyword binding failed *)
| RaiseValueError.                             (* Parser(<unknown style>) *)

(* parse(docstring, parser, **options); `inferred` is what infer_docstring_style answers when the style is "auto" (given
   the options it consumes); auto's second round has lost those options, a third cannot happen: fuel 3 suffices *)
Fixpoint parse_dispatch (fuel : nat) (inferred : option string) (parser : option string) (keys : list string) : outcome :=
  match fuel with
  | 0 => RaiseTypeError
  | S fuel' =>
      if negb (call_ok parse_sig keys) then RaiseTypeError
      else match parser with
           | None => Text
           | Some "" => Text
           | Some p =>
               match lookup p parser_table with
               | None => RaiseValueError
               | Some s =>
                   if negb (call_ok s keys) then RaiseTypeError
                   else if String.eqb p "auto" then
                     (* infer_docstring_style(docstring, <consumed keywords>, **options), then parse(docstring, style, **options) *)
                     if negb (call_ok infer_sig keys) then RaiseTypeError
                     else parse_dispatch fuel' None inferred (rest s keys)
                   else Style p (rest s keys)
               end
           end
  end.

Definition no_raise (o : outcome) : bool := match o with Text | Style _ _ => true | _ => false end.

(* the hypothesis on docstring_options: no key is the name of a positional parameter of an entry point *)
Definition keys_fine (keys : list string) : bool :=
  forallb (fun k => negb (str_in k (fs_positional parse_sig))) keys.

(* the regenerated table is usable: every entry point has **kwargs and only `docstring` (and `parser`) positional, every
   member of the enumeration has a row, every row is a member *)
Definition parse_tables_ok : bool :=
  fs_varkw parse_sig && fs_varkw infer_sig
  && forallb (fun row => fs_varkw (snd row) && forallb (fun p => str_in p (fs_positional parse_sig)) (fs_positional (snd row))) parser_table
  && forallb (fun p => str_in p (fs_positional parse_sig)) (fs_positional infer_sig)
  && forallb (fun m => key_in m parser_table) parser_enum
  && forallb (fun row => str_in (fst row) parser_enum) parser_table.

Definition sexp_of_outcome (o : outcome) : sexp :=
  match o with
  | Text => SList [SStr "text"]
  | Style s opts => SList [SStr "style"; SStr s; SList (map SStr opts)]
  | RaiseTypeError => SList [SStr "TypeError"]
  | RaiseValueError => SList [SStr "ValueError"]
  end.

(* ("parse-dispatch" (inferred) (parser) (keys...)) -> outcome *)
Definition run_parse (s : sexp) : option sexp :=
  match s with
  | SList [SStr "parse-dispatch"; i; p; k] =>
      Some (match as_opt as_str i, as_opt as_str p, as_list_of as_str k with
            | Some i', Some p', Some k' => sexp_of_outcome (parse_dispatch 3 i' p' k')
            | _, _, _ => bad_input
            end)
  | SList [SStr "parse-tables"] => Some (SList [of_bool parse_tables_ok])
  | _ => None
  end.
