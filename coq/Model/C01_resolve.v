(* C01 decorator-name resolution: which callable a decorator spelling denotes AT THE MOMENT its definition is visited.
   Griffe resolves the head of the dotted name with Object.resolve from Visitor.current:
     - a member of the current object wins (an alias gives its target path, anything else its own path);
     - a module is the end of the chain: an unknown name stays as written (built-ins: property, staticmethod, ...);
     - from a class, enclosing CLASS bodies are skipped (they are no enclosing scope); from the __init__ function the
       enclosing class IS consulted; the name of the (non-module) parent itself resolves to that parent;
   and derives the labels from the resulting path.  The same spelling can therefore mean different things in two
   places of one module (shadowed in a class body, (re)bound later in the module).

   [resolve_list] rewrites every unresolved [DRef] of the definitions the visitor will reach into a [DPath], each against
   the frames the level semantics of Model/C01_visitor.v has reached at that statement (the resolved prefix is
   evaluated with [sem_stmt]), so that all other definitions and theorems keep working on resolved statements.
   Executable definitions only. *)
From Coq Require Import List ZArith String Ascii Bool Arith.
From Verif Require Import Lib.Sexp Model.C01_base Gen.C01_tables Model.C01_visitor.
Import ListNotations.
Open Scope string_scope.
Open Scope list_scope.
Open Scope nat_scope.

Definition resolver := string -> option string.
Definition orelse {A} (a b : option A) : option A := match a with Some x => Some x | None => b end.

(* `name in self.members`: alias -> target_path, else the member's own path *)
Definition scope_lookup (f : frame) (h : string) : option string :=
  match lookup h (fmembers f) with
  | Some o => Some (match ikind (oinfo o) with KAlias => itarget (oinfo o) | _ => dot (fpath f) h end)
  | None => None
  end.

(* Object.resolve from Visitor.current = [own] (its parent [up] matters only for an __init__ function);
   [env] = the scopes enclosing the nearest class (own if it is a class, up if own is an __init__) *)
Definition resolve_head (own up : frame) (env : resolver) (h : string) : option string :=
  match fkind own with
  | InModule => scope_lookup own h
  | InClass => orelse (scope_lookup own h) (env h)
  | InInit => orelse (scope_lookup own h)
                     (if String.eqb h (fname up) then Some (fpath up) else orelse (scope_lookup up h) (env h))
  end.

(* the scopes enclosing a class whose statement is visited with Visitor.current = [own] (which already holds the class) *)
Definition class_env (own up : frame) (env : resolver) : resolver :=
  match fkind own with
  | InModule => scope_lookup own
  | InClass => env
  | InInit => fun h => if String.eqb h (fname own) then Some (fpath own)
                       else orelse (scope_lookup own h)
                                   (if String.eqb h (fname up) then Some (fpath up) else orelse (scope_lookup up h) (env h))
  end.

Definition resolve_deco (own up : frame) (env : resolver) (d : deco) : deco :=
  match d with
  | DRef h rest => DPath (String.append (match resolve_head own up env h with Some p => p | None => h end) rest)
  | other => other
  end.

Fixpoint resolve_stmt (g : bool) (pk : pkind) (own up : frame) (env : resolver) (s : stmt) {struct s} : stmt :=
  let rl := fix rl (g : bool) (pk : pkind) (own up : frame) (env : resolver) (l : list stmt) {struct l} : list stmt :=
              match l with
              | [] => []
              | x :: r =>
                  let x' := resolve_stmt g pk own up env x in
                  let a := sem_stmt g pk (next_doc r None) x' own up in
                  x' :: rl g pk (l_own a) (l_up a) env r
              end in
  match s with
  | SDef ln dln eln name a ds body =>
      let ds' := map (resolve_deco own up env) ds in
      if descends own name a ds' then
        let own1 := fst (op_def g ln dln eln name a ds' (head_doc body) own) in
        SDef ln dln eln name a ds' (rl g PFunction (empty_frame InInit name (child_path own name)) own1 env body)
      else SDef ln dln eln name a ds' body
  | SCls ln dln eln name ds body =>
      let ds' := map (resolve_deco own up env) ds in
      let own1 := set_members own (assign name (leaf (cls_info g ln dln eln ds' body)) (fmembers own)) in
      SCls ln dln eln name ds' (rl g PScope (empty_frame InClass name (child_path own name)) sentinel (class_env own1 up env) body)
  | SIf tc body orelse =>
      let body' := rl (gbody g pk tc) PIf own up env body in
      let a := sem_list (gbody g pk tc) PIf None body' own up in
      SIf tc body' (rl (gelse g pk tc) PIf (l_own a) (l_up a) env orelse)
  | SBlock ch => SBlock (rl g POther own up env ch)
  | SSub h body => SSub h (rl g (if h then PHandler else POther) own up env body)
  | other => other
  end.
(* [follow]: what comes after the list (as for sem_list); a complete statement list has follow = None *)
Fixpoint resolve_list (g : bool) (pk : pkind) (follow : option (nat * nat)) (own up : frame) (env : resolver) (l : list stmt) : list stmt :=
  match l with
  | [] => []
  | x :: r =>
      let x' := resolve_stmt g pk own up env x in
      let a := sem_stmt g pk (next_doc r follow) x' own up in
      x' :: resolve_list g pk follow (l_own a) (l_up a) env r
  end.

Definition resolve_module (mname : string) (body : list stmt) : list stmt :=
  resolve_list false PScope None (empty_frame InModule mname mname) sentinel (fun _ => None) body.

(* no unresolved reference left among the decorators the visitor looks at *)
Definition deco_resolved (d : deco) : bool := match d with DRef _ _ => false | _ => true end.
