(* C04 model, part 2: the repaired scope walk, scoping inside expressions, binding statements, global/nonlocal.
   Griffe side : models.py Object.resolve in both forms (before / after the repair of C04-F1a: a class body is left
                 towards the nearest enclosing non-class scope), expressions.py _build_name / _build_lambda /
                 _build_generators / _build_comprehension / _function_scope in both forms (before / after the repairs of
                 C04-F3: comprehension targets and lambda parameters are local names, and C04-F4: lambda bodies and the
                 inside of comprehensions are function scopes), _build_constant for string annotations (parsed and built
                 with the same parent), visitor.py visit_import / visit_importfrom / set_member as a fold over the binding
                 statements of a scope body.
   Spec side   : CPython's symbol table: names bound by a lambda / comprehension are locals of that function scope, the
                 first iterable and parameter defaults are evaluated in the enclosing scope, a function scope nested in a
                 class body does not see the class body; `global` / `nonlocal` declarations; a namespace after executing
                 binding statements in order (last binding wins).
   Which form the code under test has is read from its source on every run (harness/translate/c04_variant.py); every
   definition below takes the three switches as a parameter and the theorems are stated for all eight combinations.
   Executable definitions only. *)
From Coq Require Import List ZArith String Ascii Bool Arith.
From Verif Require Import Lib.Sexp Model.C04_scope.
Import ListNotations.
Open Scope string_scope.
Open Scope list_scope.
Open Scope nat_scope.

(* ------------------------------------------------------------------------------------------------ variants *)
Record variant := mkV { v_skip : bool;      (* Object.resolve leaves a class body towards the nearest non-class ancestor *)
                        v_locals : bool;    (* the expression builders track names bound by the expression itself *)
                        v_inner : bool }.   (* lambda bodies / comprehension insides are built in _function_scope(parent) *)
Definition v_asis := mkV false false false.
Definition v_fixed := mkV true true true.

(* `while parent.is_class and parent.parent is not None: parent = parent.parent` (Object.resolve, _function_scope) *)
Fixpoint skip_classes (c : chain) : chain :=
  match c with
  | f :: ((_ :: _) as r) => if is_class f then skip_classes r else c
  | _ => c
  end.

(* Object.resolve / Function.resolve.  sk: the repaired form.  skipping: this call is the target of the `while` loop, i.e.
   the frames that the loop steps over are not consulted (they are stepped over here, structurally). *)
Fixpoint resolve_v (sk skipping : bool) (c : chain) (n : string) : option string :=
  match c with
  | [] => None
  | f :: rest =>
      if skipping && is_class f && nonempty rest then resolve_v sk true rest n
      else
        match g_bind f rest n with
        | Some p => Some p
        | None =>
            if is_module f then None
            else
              let sk' := sk && is_class f in
              match (if sk' then skip_classes rest else rest) with
              | [] => None
              | g :: r' => if String.eqb n (fname g) && negb (is_module g)
                           then Some (path_of (g :: r'))
                           else resolve_v sk sk' rest n
              end
        end
  end.

Definition canonical_v (sk : bool) (c : chain) (n : string) : string :=
  match resolve_v sk false c n with Some p => p | None => n end.

(* the same walk with the verdict "is the answering frame one that CPython consults": inner = the head of the chain is the
   scope whose body contains the reference (false: the reference sits in a function scope nested in it) *)
Fixpoint rt_v (sk inner skipping : bool) (c : chain) (n : string) : option (string * tag) :=
  match c with
  | [] => None
  | f :: rest =>
      if skipping && is_class f && nonempty rest then rt_v sk false true rest n
      else
        match g_bind f rest n with
        | Some p => Some (p, if is_class f && negb inner then TClassLeak else TOk)
        | None =>
            if is_module f then None
            else
              let sk' := sk && is_class f in
              match (if sk' then skip_classes rest else rest) with
              | [] => None
              | g :: r' => if String.eqb n (fname g) && negb (is_module g)
                           then Some (path_of (g :: r'),
                                      match r' with
                                      | h :: _ => if is_class h then TClassLeak else TOk
                                      | [] => TClassLeak
                                      end)
                           else rt_v sk false sk' rest n
              end
        end
  end.

Definition leaks (o : option (string * tag)) : bool := match o with Some (_, TClassLeak) => true | _ => false end.
(* known-gap predicate of the walk (decidable): the answer comes from a class body CPython does not consult *)
Definition gap_class_v (sk : bool) (c : chain) (n : string) : bool := leaks (rt_v sk true false c n).

Definition is_some {A} (o : option A) : bool := match o with Some _ => true | None => false end.
Definition no_functions (c : chain) : bool := forallb (fun f => negb (is_function f)) c.

(* attribute chains over either form of the walk (ExprAttribute.canonical_path = self.last.canonical_path) *)
Fixpoint e_canonical_v (sk : bool) (c : chain) (e : ename) : string :=
  match e with ERoot n => canonical_v sk c n | EAttr p a => e_canonical_v sk c p +++ "." +++ a end.
Definition attr_canonical_v (sk : bool) (c : chain) (x : anode) : string := e_canonical_v sk c (last_e (build_attr x) (ERoot "")).

(* Decorator.callable_path: the decorator expression stripped of its calls (the property strips one ExprCall,
   ExprCall.canonical_path the others), then ExprAttribute / ExprName.canonical_path *)
Inductive deco := DChain (x : anode) | DCall (d : deco).
Fixpoint callable_path_v (sk : bool) (c : chain) (d : deco) : string :=
  match d with DChain x => attr_canonical_v sk c x | DCall d' => callable_path_v sk c d' end.
Fixpoint deco_head (d : deco) : anode := match d with DChain x => x | DCall d' => deco_head d' end.
Fixpoint deco_calls (n : nat) (d : deco) : deco := match n with O => d | S k => DCall (deco_calls k d) end.

(* ------------------------------------------------------------------------------------------------ expressions *)
(* What matters for scoping: identifiers, nodes whose children are evaluated in the same scope (folded to XSeq),
   lambdas (parameter names, defaults, body), comprehensions (element(s), for-clauses), string annotations. *)
Inductive expr :=
| XConst
| XName (n : string)
| XSeq (a b : expr)
| XLambda (ps : list string) (dflt body : expr)
| XComp (elt : expr) (g : gens)
| XStr (e : expr)
with gens :=
| GOne (t : target) (iter conds : expr)
| GCons (t : target) (iter conds : expr) (more : gens)
(* the target of a `for` clause: a name, a starred target, a tuple / list of targets (folded to pairs) *)
with target :=
| TName (n : string)
| TStar (t : target)
| TPair (a b : target)
| TNil.

(* the names a target binds (ast.walk over the target, Name nodes in Store context): all of them, starred ones included *)
Fixpoint tnames (t : target) : list string :=
  match t with TName n => [n] | TStar t' => tnames t' | TPair a b => tnames a ++ tnames b | TNil => [] end.
(* a collection that descends into tuples / lists only and forgets Starred (seeded change C04-m7) *)
Fixpoint tnames_nostar (t : target) : list string :=
  match t with TName n => [n] | TStar _ => [] | TPair a b => tnames_nostar a ++ tnames_nostar b | TNil => [] end.
Fixpoint targets_with (collect : target -> list string) (g : gens) : list string :=
  match g with GOne t _ _ => collect t | GCons t _ _ more => collect t ++ targets_with collect more end.
Definition gens_targets (g : gens) : list string := targets_with tnames g.

(* the builders: `c` is the `parent` argument (the scope object as its parent chain), `loc` is `local_names`;
   `nested` is ghost information (is the position inside a lambda / comprehension) that only the gap predicate reads *)
Section GriffeWalk.
  Variable A : Type.
  Variable v : variant.
  Variable leaf : chain -> bool -> list string -> string -> A.
  Variable collect : target -> list string.       (* how _build_generators collects the comprehension-local names *)
  Definition fscope (c : chain) : chain := if v_inner v then skip_classes c else c.

  Fixpoint g_walk (c : chain) (nested : bool) (loc : list string) (e : expr) : list A :=
    match e with
    | XConst => []
    | XName n => [leaf c nested loc n]
    | XSeq a b => g_walk c nested loc a ++ g_walk c nested loc b
    | XLambda ps d body => g_walk c nested loc d ++ g_walk (fscope c) true (ps ++ loc) body
    | XComp elt g =>
        let inner := targets_with collect g ++ loc in
        g_walk (fscope c) true inner elt ++ g_gens c nested loc (fscope c) inner true g
    | XStr e' => g_walk c nested loc e'
    end
  with g_gens (c : chain) (nested : bool) (loc : list string) (ci : chain) (inner : list string) (first : bool) (g : gens) : list A :=
    match g with
    | GOne t it cs =>
        map (leaf ci true inner) (tnames t)
        ++ (if first then g_walk c nested loc it else g_walk ci true inner it)
        ++ g_walk ci true inner cs
    | GCons t it cs more =>
        map (leaf ci true inner) (tnames t)
        ++ (if first then g_walk c nested loc it else g_walk ci true inner it)
        ++ g_walk ci true inner cs
        ++ g_gens c nested loc ci inner false more
    end.
End GriffeWalk.

(* _build_name + ExprName.canonical_path *)
Definition g_canon (v : variant) (c : chain) (nested : bool) (loc : list string) (n : string) : string :=
  if v_locals v && mem n loc then n else canonical_v (v_skip v) c n.
Definition tag_name (o : option (string * tag)) : string :=
  match o with None => "unresolved" | Some (_, TOk) => "ok" | Some (_, TClassLeak) => "class-leak" end.
Definition g_tag (v : variant) (c : chain) (nested : bool) (loc : list string) (n : string) : string :=
  if v_locals v && mem n loc then "local" else tag_name (rt_v (v_skip v) (negb nested) false c n).
(* known-gap predicate of one occurrence (decidable) *)
Definition g_gap (v : variant) (c : chain) (nested : bool) (loc : list string) (n : string) : bool :=
  if mem n loc then negb (v_locals v) && is_some (resolve_v (v_skip v) false c n)
  else leaks (rt_v (v_skip v) (negb nested) false c n).

Definition g_names (v : variant) (c : chain) (e : expr) : list string := g_walk string v (g_canon v) tnames c false [] e.
(* the builders with another way of collecting the local names *)
Definition g_names_with (collect : target -> list string) (v : variant) (c : chain) (e : expr) : list string :=
  g_walk string v (g_canon v) collect c false [] e.
Definition g_tags (v : variant) (c : chain) (e : expr) : list string := g_walk string v (g_tag v) tnames c false [] e.
Definition e_gap (v : variant) (c : chain) (e : expr) : bool := existsb (fun b => b) (g_walk bool v (g_gap v) tnames c false [] e).

(* CPython: the symbol table.  nested = inside a function scope created by the expression itself; loc = the names that
   are local to those scopes. *)
Section PyWalk.
  Variable A : Type.
  Variable leaf : bool -> list string -> string -> A.
  Fixpoint p_walk (nested : bool) (loc : list string) (e : expr) : list A :=
    match e with
    | XConst => []
    | XName n => [leaf nested loc n]
    | XSeq a b => p_walk nested loc a ++ p_walk nested loc b
    | XLambda ps d body => p_walk nested loc d ++ p_walk true (ps ++ loc) body
    | XComp elt g =>
        let inner := gens_targets g ++ loc in
        p_walk true inner elt ++ p_gens nested loc inner true g
    | XStr e' => p_walk nested loc e'           (* PEP 563: evaluated in the scope the annotation is written in *)
    end
  with p_gens (nested : bool) (loc inner : list string) (first : bool) (g : gens) : list A :=
    match g with
    | GOne t it cs =>
        map (leaf true inner) (tnames t)
        ++ (if first then p_walk nested loc it else p_walk true inner it)
        ++ p_walk true inner cs
    | GCons t it cs more =>
        map (leaf true inner) (tnames t)
        ++ (if first then p_walk nested loc it else p_walk true inner it)
        ++ p_walk true inner cs
        ++ p_gens nested loc inner false more
    end.
End PyWalk.

Definition p_canon (c : chain) (nested : bool) (loc : list string) (n : string) : string :=
  if mem n loc then n else match py_scan (negb nested) c n with Some p => p | None => n end.

(* where CPython finds the name: what the compiler's choice of load instruction plus the scopes' symbol tables say *)
Fixpoint py_where (inner : bool) (c : chain) (n : string) : string :=
  match c with
  | [] => "unbound"
  | f :: rest =>
      let here := if is_function f && mem n (fparams f) then Some "param"
                  else match lookup n (fmembers f) with
                       | Some _ => Some (match fkind f with KModule => "module" | KClass => "class" | KFunction => "function" end)
                       | None => None
                       end in
      match fkind f with
      | KModule => match here with Some k => k | None => "unbound" end
      | KClass => if inner then match here with Some k => k | None => py_where false rest n end else py_where false rest n
      | KFunction => match here with Some k => k | None => py_where false rest n end
      end
  end.
Definition p_class (c : chain) (nested : bool) (loc : list string) (n : string) : string :=
  if mem n loc then "local" else py_where (negb nested) c n.

Definition p_names (c : chain) (e : expr) : list string := p_walk string (p_canon c) false [] e.
Definition p_classes (c : chain) (e : expr) : list string := p_walk string (p_class c) false [] e.
Definition e_idents (e : expr) : list string := p_walk string (fun _ _ n => n) false [] e.

(* ------------------------------------------------------------------------------------------------ global / nonlocal *)
Inductive decl := DNone | DGlobal | DNonlocal.
Fixpoint nearest_module (c : chain) : chain :=
  match c with [] => [] | f :: r => if is_module f then c else nearest_module r end.
(* `global n` in the referencing scope: the module's namespace, nothing else *)
Definition py_global (c : chain) (n : string) : option string :=
  match nearest_module c with f :: r => py_bind f r n | [] => None end.
(* `nonlocal n`: the enclosing function scopes only *)
Fixpoint py_nonlocal (c : chain) (n : string) : option string :=
  match c with
  | [] => None
  | f :: r => match fkind f with
              | KFunction => match py_bind f r n with Some p => Some p | None => py_nonlocal r n end
              | KClass => py_nonlocal r n
              | KModule => None
              end
  end.
Definition py_lookup_decl (d : decl) (c : chain) (n : string) : option string :=
  match d with DNone => py_lookup c n | DGlobal => py_global c n | DNonlocal => py_nonlocal (tl c) n end.
(* does a frame answer by itself in Griffe's walk (member, __init__ parameter) or through the own-name rule of its child *)
Definition answers (f : frame) (rest : chain) (n : string) : bool :=
  is_some (g_bind f rest n) || (String.eqb n (fname f) && negb (is_module f)).
(* gap predicate for `global`: some frame below the nearest module answers first (Griffe ignores the declaration) *)
Fixpoint gap_global_up (c : chain) (n : string) : bool :=
  match c with
  | [] => false
  | f :: rest => if is_module f then false else answers f rest n || gap_global_up rest n
  end.
Definition gap_global (c : chain) (n : string) : bool :=
  match c with
  | [] => false
  | f :: rest => if is_module f then false else is_some (g_bind f rest n) || gap_global_up rest n
  end.

(* ------------------------------------------------------------------------------------------------ binding statements *)
Inductive stmt :=
| SBind (n : string)                                                        (* n = value / def n / class n *)
| SImport (comps : list string) (asname : option string)
| SFrom (level : nat) (module : option string) (name : string) (asname : option string).

Fixpoint upd {A} (n : string) (x : A) (l : list (string * A)) : list (string * A) :=
  match l with
  | [] => [(n, x)]
  | (k, y) :: r => if String.eqb k n then (k, x) :: r else (k, y) :: upd n x r
  end.

(* Visitor: members of the scope after its body has been visited (Object.set_member overwrites) *)
Definition g_stmt (mrev : list string) (is_init : bool) (scope : string) (ms : list (string * member)) (s : stmt) :=
  match s with
  | SBind n => upd n MObj ms
  | SImport comps a => let r := visit_import comps a in upd (fst r) (MAlias (snd r)) ms
  | SFrom lv md nm a =>
      match visit_importfrom mrev is_init scope lv md nm a with
      | FSkip => ms
      | FImportsOnly _ _ => ms
      | FAlias k t => upd k (MAlias t) ms
      end
  end.
Definition g_members mrev is_init scope (ss : list stmt) := fold_left (g_stmt mrev is_init scope) ss [].

(* CPython: the namespace after the body has run (None: an import outside the package raised) *)
Definition p_stmt (mrev : list string) (is_init : bool) (ns : option (list (string * member))) (s : stmt) :=
  match ns with
  | None => None
  | Some ms =>
      match s with
      | SBind n => Some (upd n MObj ms)
      | SImport comps a => let r := cpython_import comps a in Some (upd (fst r) (MAlias (snd r)) ms)
      | SFrom lv md nm a =>
          match cpython_importfrom mrev is_init lv md nm a with
          | Some (k, t) => Some (upd k (MAlias t) ms)
          | None => None
          end
      end
  end.
Definition p_members mrev is_init (ss : list stmt) := fold_left (p_stmt mrev is_init) ss (Some []).

(* the dotted path a table entry stands for *)
Definition den (scope n : string) (m : member) : string := match m with MObj => scope +++ "." +++ n | MAlias t => t end.

(* ------------------------------------------------------------------------------------------------ s-expressions *)
Definition dec_variant (s : sexp) : option variant :=
  match s with
  | SList [a; b; c] => do a' <- as_bool a; do b' <- as_bool b; do c' <- as_bool c; Some (mkV a' b' c')
  | _ => None
  end.

Fixpoint dec_expr (fuel : nat) (s : sexp) : option expr :=
  match fuel with
  | O => None
  | S k =>
      match s with
      | SList [SStr "c"] => Some XConst
      | SList [SStr "n"; SStr n] => Some (XName n)
      | SList [SStr "s"; a; b] => do a' <- dec_expr k a; do b' <- dec_expr k b; Some (XSeq a' b')
      | SList [SStr "l"; ps; d; b] =>
          do ps' <- as_list_of as_str ps; do d' <- dec_expr k d; do b' <- dec_expr k b; Some (XLambda ps' d' b')
      | SList [SStr "k"; e; SList gs] => do e' <- dec_expr k e; do g' <- dec_gens k gs; Some (XComp e' g')
      | SList [SStr "q"; e] => do e' <- dec_expr k e; Some (XStr e')
      | _ => None
      end
  end
with dec_gens (fuel : nat) (l : list sexp) : option gens :=
  match fuel with
  | O => None
  | S k =>
      match l with
      | [SList [ts; it; cs]] =>
          do ts' <- dec_target k ts; do it' <- dec_expr k it; do cs' <- dec_expr k cs; Some (GOne ts' it' cs')
      | SList [ts; it; cs] :: more =>
          do ts' <- dec_target k ts; do it' <- dec_expr k it; do cs' <- dec_expr k cs; do m' <- dec_gens k more;
          Some (GCons ts' it' cs' m')
      | _ => None
      end
  end
with dec_target (fuel : nat) (s : sexp) : option target :=
  match fuel with
  | O => None
  | S k =>
      match s with
      | SList [SStr "n"; SStr n] => Some (TName n)
      | SList [SStr "*"; t] => do t' <- dec_target k t; Some (TStar t')
      | SList [SStr "p"; a; b] => do a' <- dec_target k a; do b' <- dec_target k b; Some (TPair a' b')
      | SList [SStr "e"] => Some TNil
      | _ => None
      end
  end.

Definition dec_decl (s : sexp) : option decl :=
  match s with SStr "none" => Some DNone | SStr "global" => Some DGlobal | SStr "nonlocal" => Some DNonlocal | _ => None end.

Definition dec_stmt (s : sexp) : option stmt :=
  match s with
  | SList [SStr "bind"; SStr n] => Some (SBind n)
  | SList [SStr "import"; comps; a] => do c <- as_list_of as_str comps; do a' <- as_opt as_str a; Some (SImport c a')
  | SList [SStr "from"; lv; md; SStr nm; a] =>
      do l <- as_nat lv; do m <- as_opt as_str md; do a' <- as_opt as_str a; Some (SFrom l m nm a')
  | _ => None
  end.

Definition enc_members (ms : list (string * member)) : sexp :=
  SList (map (fun km => SList [SStr (fst km); match snd km with MObj => SList [] | MAlias t => SList [SStr t] end]) ms).

Fixpoint zip7 (a b c d e f g : list string) : list sexp :=
  match a, b, c, d, e, f, g with
  | x :: a', y :: b', z :: c', u :: d', w :: e', t :: f', r :: g' =>
      SList [SStr x; SStr y; SStr z; SStr u; SStr w; SStr t; SStr r] :: zip7 a' b' c' d' e' f' g'
  | _, _, _, _, _, _, _ => []
  end.
Definition e_nested (e : expr) : list string := p_walk string (fun nested _ _ => if nested then "1" else "0") false [] e.

Definition run_C04e (s : sexp) : sexp :=
  match s with
  (* one occurrence: variant, chain, name, nested, local, declaration *)
  | SList [SStr "occ"; v; c; SStr n; nst; loc; d] =>
      match dec_variant v, as_list_of dec_frame c, as_bool nst, as_bool loc, dec_decl d with
      | Some v', Some c', Some nst', Some loc', Some d' =>
          let l := if loc' then [n] else [] in
          let cg := if nst' && v_inner v' then skip_classes c' else c' in
          SList [SStr (g_canon v' cg nst' l n); SStr (g_tag v' cg nst' l n);
                 SStr (match d' with
                       | DNone => p_canon c' nst' l n
                       | _ => match py_lookup_decl d' c' n with Some p => p | None => n end
                       end);
                 SStr (p_class c' nst' l n); of_bool (wf_chain c'); of_bool (g_gap v' cg nst' l n);
                 of_bool (match d' with DGlobal => gap_global c' n | _ => false end);
                 SStr (g_canon v_fixed (if nst' then skip_classes c' else c') nst' l n);
                 of_bool (g_gap v_fixed (if nst' then skip_classes c' else c') nst' l n)]
      | _, _, _, _, _ => bad_input
      end
  (* a whole expression: variant, chain, expression *)
  | SList [SStr "expr"; v; c; e] =>
      match dec_variant v, as_list_of dec_frame c, dec_expr 200 e with
      | Some v', Some c', Some e' =>
          SList [SList (zip7 (e_idents e') (g_names v' c' e') (g_tags v' c' e') (p_names c' e') (p_classes c' e') (e_nested e') (g_names v_fixed c' e'));
                 of_bool (wf_chain c'); of_bool (e_gap v' c' e'); of_bool (no_functions c')]
      | _, _, _ => bad_input
      end
  (* the binding statements of one scope body: module path components, __init__?, scope path, statements *)
  | SList [SStr "stmts"; m; ini; SStr scope; ss] =>
      match as_list_of as_str m, as_bool ini, as_list_of dec_stmt ss with
      | Some m', Some ini', Some ss' =>
          SList [enc_members (g_members (rev m') ini' scope ss');
                 match p_members (rev m') ini' ss' with Some ms => SList [enc_members ms] | None => SList [] end]
      | _, _, _ => bad_input
      end
  (* the queries of part 1 over either form of the walk *)
  | SList [SStr "resolve2"; v; c; SStr n; loc] =>
      match dec_variant v, as_list_of dec_frame c, as_bool loc with
      | Some v', Some c', Some l =>
          let ln := if l then [n] else [] in
          SList [of_opt SStr (resolve_v (v_skip v') false c' n); SStr (tag_name (rt_v (v_skip v') true false c' n));
                 of_opt SStr (py_lookup c' n); of_bool (wf_chain c'); SStr (g_canon v' c' false ln n); SStr (py_canonical l c' n);
                 of_bool (gap_class_v (v_skip v') c' n); of_bool (l && g_gap v' c' false ln n); of_bool (gap_class_v true c' n)]
      | _, _, _ => bad_input
      end
  | SList [SStr "attr2"; v; c; SStr root; segs] =>
      match dec_variant v, as_list_of dec_frame c, as_list_of as_str segs with
      | Some v', Some c', Some segs' =>
          let x := dec_anode segs' (AName root) in
          SList [SStr (attr_canonical_v (v_skip v') c' x);
                 SList (map (fun e => SStr (e_canonical_v (v_skip v') c' e)) (build_attr x))]
      | _, _, _ => bad_input
      end
  | SList [SStr "deco"; v; c; SStr root; segs; calls] =>
      match dec_variant v, as_list_of dec_frame c, as_list_of as_str segs, as_nat calls with
      | Some v', Some c', Some segs', Some k =>
          SStr (callable_path_v (v_skip v') c' (deco_calls k (DChain (dec_anode segs' (AName root)))))
      | _, _, _, _ => bad_input
      end
  | _ => run_C04 s
  end.
