(* C19 model: src/_griffe/merger.py (merge_stubs and its helpers, line by line), the implicit merge of
   mixins.py:SetMembersMixin.set_member, and the stubs branch of loader.py:_load_package.
   Executable definitions only; proofs are in Proofs/C19_merge.v.

   Values, not objects: a Griffe object is a [tree]; mutation is state passing.  An [Al] is an alias whose
   target is NOT loaded (the only thing merger.py can observe of it is Kind.ALIAS / AliasResolutionError).
   An [AlTo] is an alias whose final target is loaded: it carries the current value of that target object, and
   merger.py, working through the alias proxies, mutates the target (the value is written back in place). *)
From Coq Require Import List ZArith String Bool Arith.
From Verif Require Import Lib.Sexp.
Import ListNotations.
Open Scope string_scope.
Open Scope list_scope.
Open Scope nat_scope.

Inductive kind := KMod | KCls | KFun | KAttr.
Inductive err := EAlias (* AliasResolutionError *) | EAttr (* AttributeError *) | EValue (* ValueError *).
Inductive result (A : Type) := Ok (a : A) | Err (e : err).
Arguments Ok {A} a. Arguments Err {A} e.

(* the [overloads] attribute: None/absent, a list of signatures (Function.overloads),
   or the per-scope buffer dict name -> signatures (Module.overloads / Class.overloads) *)
Inductive ovf := OvNone | OvList (l : list string) | OvDict (d : list (string * list string)).

Record node := mkNode {
  nkind : kind;
  ndoc : option string;                       (* docstring value, None = no docstring *)
  nparams : list (string * option string);    (* function: name, annotation *)
  nret : option string;                       (* function: returns *)
  nov : ovf;
  nann : option string;                       (* attribute: annotation *)
  nrt : bool;                                 (* runtime *)
  nimp : list (string * string) }.            (* imports *)

Inductive tree :=
| Obj (d : node) (ms : list (string * tree))
| Al (target : string) (rt : bool)
| AlTo (target : string) (rt : bool) (tgt : tree).

(* Alias.final_target, and writing a new value of the final target back through the chain *)
Fixpoint final (t : tree) : tree := match t with AlTo _ _ x => final x | _ => t end.
Fixpoint retarget (t x' : tree) : tree := match t with AlTo tg rt x => AlTo tg rt (retarget x x') | _ => x' end.
Definition is_alto (t : tree) : bool := match t with AlTo _ _ _ => true | _ => false end.

Definition with_doc (d : node) (x : option string) := mkNode (nkind d) x (nparams d) (nret d) (nov d) (nann d) (nrt d) (nimp d).
Definition with_params (d : node) x := mkNode (nkind d) (ndoc d) x (nret d) (nov d) (nann d) (nrt d) (nimp d).
Definition with_ret (d : node) x := mkNode (nkind d) (ndoc d) (nparams d) x (nov d) (nann d) (nrt d) (nimp d).
Definition with_ov (d : node) x := mkNode (nkind d) (ndoc d) (nparams d) (nret d) x (nann d) (nrt d) (nimp d).
Definition with_ann (d : node) x := mkNode (nkind d) (ndoc d) (nparams d) (nret d) (nov d) x (nrt d) (nimp d).
Definition with_rt (d : node) x := mkNode (nkind d) (ndoc d) (nparams d) (nret d) (nov d) (nann d) x (nimp d).
Definition with_imp (d : node) x := mkNode (nkind d) (ndoc d) (nparams d) (nret d) (nov d) (nann d) (nrt d) x.

Definition kind_eqb (a b : kind) : bool :=
  match a, b with KMod, KMod | KCls, KCls | KFun, KFun | KAttr, KAttr => true | _, _ => false end.

(* ---- dicts as association lists ---- *)
Fixpoint lookup {A} (n : string) (l : list (string * A)) : option A :=
  match l with [] => None | (k, v) :: r => if String.eqb k n then Some v else lookup n r end.
(* d[n] = v : keeps the position of an existing key, appends a new one *)
Fixpoint assign {A} (n : string) (v : A) (l : list (string * A)) : list (string * A) :=
  match l with
  | [] => [(n, v)]
  | (k, w) :: r => if String.eqb k n then (k, v) :: r else (k, w) :: assign n v r
  end.
Definition names {A} (l : list (string * A)) : list string := map fst l.

(* ---- merger.py ---- *)

(* _merge_stubs_docstring: if not obj.docstring and stubs.docstring: obj.docstring = stubs.docstring
   (Docstring defines neither __bool__ nor __len__, so only None is false) *)
Definition merge_doc (o s : option string) : option string :=
  match o with None => s | Some _ => o end.

(* function.parameters[name].annotation = a, KeyError suppressed; Parameters.__getitem__ takes the first match *)
Fixpoint set_ann (n : string) (a : option string) (ps : list (string * option string)) : list (string * option string) :=
  match ps with
  | [] => []
  | (k, b) :: r => if String.eqb k n then (k, a) :: r else (k, b) :: set_ann n a r
  end.
Definition merge_params (ops sps : list (string * option string)) : list (string * option string) :=
  fold_left (fun acc p => set_ann (fst p) (snd p) acc) sps ops.

Definition truthy (o : ovf) : bool :=
  match o with OvList (_ :: _) => true | OvDict (_ :: _) => true | _ => false end.

(* _merge_function_stubs *)
Definition merge_fun (o s : node) : node :=
  let d1 := with_doc o (merge_doc (ndoc o) (ndoc s)) in
  let d2 := with_params d1 (merge_params (nparams o) (nparams s)) in
  let d3 := with_ret d2 (nret s) in
  if truthy (nov s) then with_ov d3 (nov s) else d3.

(* _merge_attribute_stubs *)
Definition merge_attr (o s : node) : node :=
  with_ann (with_doc o (merge_doc (ndoc o) (ndoc s))) (nann s).

(* obj.imports.update(stubs.imports) *)
Definition update_imports (o s : list (string * string)) : list (string * string) :=
  fold_left (fun acc p => assign (fst p) (snd p) acc) s o.

(* if member.is_function: member.overloads = overloads   (inside suppress(KeyError, AliasResolutionError, CyclicAliasError)).
   A function, possibly reached through an alias to a loaded object, takes the list; a member of another kind is left
   alone; on an alias whose target is not loaded is_function raises AliasResolutionError, which is suppressed. *)
Definition set_ov (t : tree) (ovs : list string) : tree :=
  match final t with
  | Obj d ms => if kind_eqb (nkind d) KFun then retarget t (Obj (with_ov d (OvList ovs)) ms) else t
  | _ => t
  end.

(* stubs.overloads.items() *)
Definition buffer_items (o : ovf) : result (list (string * list string)) :=
  match o with OvDict d => Ok d | _ => Err EAttr end.

(* A merge that raises leaves the objects mutated up to that point; the callers that suppress the exception
   (the `with suppress` of _merge_stubs_members, set_member) go on with that partial state. *)
Inductive outcome := Done (t : tree) | Raised (e : err) (partial : tree).

(* _merge_stubs_overloads, on the members of obj (the deletion from stubs.overloads is in [residual]) *)
Fixpoint apply_buffer (buf : list (string * list string)) (ms : list (string * tree)) : list (string * tree) :=
  match buf with
  | [] => ms
  | (fn, ovs) :: r =>
      match ovs with
      | [] => apply_buffer r ms
      | _ :: _ =>
          match lookup fn ms with
          | None => apply_buffer r ms                    (* KeyError suppressed *)
          | Some m => apply_buffer r (assign fn (set_ov m ovs) ms)
          end
      end
  end.

Definition set_rt (b : bool) (t : tree) : tree :=
  match t with Obj d ms => Obj (with_rt d b) ms | Al tg _ => Al tg b | AlTo tg _ x => AlTo tg b x end.

Definition is_container (k : kind) : bool := match k with KMod | KCls => true | _ => false end.

Section Members.
  (* the recursive call _merge_module_stubs / _merge_class_stubs (stub member, target object) *)
  Variable rec : tree -> tree -> outcome.

  (* the loop of _merge_stubs_members over stubs.members.items(); acc = obj.members
     (obj itself is first replaced by its final target when it is an alias, so members are always set on a real object) *)
  Fixpoint merge_members (sl : list (string * tree)) (acc : list (string * tree)) : list (string * tree) * option err :=
    match sl with
    | [] => (acc, None)
    | (n, sm) :: r =>
        match lookup n acc with
        | None => merge_members r (acc ++ [(n, set_rt false sm)])       (* stub_member.runtime = False; obj.set_member *)
        | Some om =>
            match sm with
            | Obj smd _ =>
                match final om with                                      (* obj_member.kind goes through final_target *)
                | Obj omd omms =>
                    if kind_eqb (nkind omd) (nkind smd) then
                      match nkind omd with
                      | KFun => merge_members r (assign n (retarget om (Obj (merge_fun omd smd) omms)) acc)
                      | KAttr => merge_members r (assign n (retarget om (Obj (merge_attr omd smd) omms)) acc)
                      | KMod | KCls =>
                          match rec sm (Obj omd omms) with
                          | Done t' => merge_members r (assign n (retarget om t') acc)
                          | Raised EAlias p => merge_members r (assign n (retarget om p) acc)   (* with suppress(AliasResolutionError, CyclicAliasError) *)
                          | Raised e p => (assign n (retarget om p) acc, Some e)
                          end
                      end
                    else merge_members r acc                             (* kind mismatch: debug log only *)
                | _ => merge_members r acc                               (* Kind.ALIAS differs from every object kind *)
                end
            | _ => merge_members r acc                                   (* if stub_member.is_alias: continue *)
            end
        end
    end.
End Members.

(* _merge_module_stubs(o, s) / _merge_class_stubs(o, s): docstring, overloads, members (imports first) *)
Fixpoint merge_obj (s o : tree) {struct s} : outcome :=
  match s, o with
  | Obj sd sms, Obj od oms =>
      let od1 := with_doc od (merge_doc (ndoc od) (ndoc sd)) in
      match buffer_items (nov sd) with
      | Err e => Raised e (Obj od1 oms)
      | Ok buf =>
          let oms1 := apply_buffer buf oms in
          let od2 := with_imp od1 (update_imports (nimp od) (nimp sd)) in
          match merge_members merge_obj sms oms1 with
          | (oms2, Some e) => Raised e (Obj od2 oms2)
          | (oms2, None) => Done (Obj od2 oms2)
          end
      end
  | _, _ => Raised EAttr o       (* merge_stubs is only ever given Module objects *)
  end.

(* a module together with what merge_stubs looks at in its filepath *)
Record fmod := mkF { is_pyi : bool; body : tree }.

(* merge_stubs(mod1, mod2): which is the stubs, which the module; None = ValueError *)
Definition roles (m1 m2 : fmod) : option (fmod * fmod) :=
  if is_pyi m1 then Some (m1, m2) else if is_pyi m2 then Some (m2, m1) else None.

Definition merge_stubs (m1 m2 : fmod) : result fmod :=
  match roles m1 m2 with
  | None => Err EValue
  | Some (st, md) =>
      match merge_obj (body st) (body md) with
      | Done t => Ok (mkF (is_pyi md) t)
      | Raised e _ => Err e
      end
  end.

(* ---- the stubs object after _merge_*_stubs(o, s) has run (s is mutated too): the buffer entries are deleted,
   stub-only members carry runtime=False (they are the very objects now sitting in o). ---- *)
Section Residual.
  Variable rec : tree -> tree -> tree.
  Fixpoint residual_members (sl : list (string * tree)) (oms : list (string * tree)) : list (string * tree) :=
    match sl with
    | [] => []
    | (n, sm) :: r =>
        (n, match lookup n oms with
            | None => set_rt false sm
            | Some om =>
                match sm, final om with
                | Obj smd _, Obj omd omms =>
                    if kind_eqb (nkind omd) (nkind smd) && is_container (nkind omd) then rec sm (Obj omd omms) else sm
                | _, _ => sm
                end
            end) :: residual_members r oms
    end.
End Residual.

Fixpoint residual (s o : tree) {struct s} : tree :=
  match s, o with
  | Obj sd sms, Obj od oms =>
      match nov sd with
      | OvDict _ => Obj (with_ov sd (OvDict [])) (residual_members residual sms oms)
      | _ => s
      end
  | _, _ => s
  end.

(* ---- mixins.py set_member, the branch taken when a module is assigned over an existing module with another
   filepath:  with suppress(AliasResolutionError, CyclicAliasError, BuiltinModuleError):
                  with suppress(ValueError): value = merge_stubs(member, value)
   then members[name] = value.  When the merge raised, value is still the second module - partially merged if it
   is the runtime one (since the repair of _merge_stubs_overloads nothing in the model raises it any more; the branch
   is the code's).  Any other exception propagates. ---- *)
Definition set_member_module (member value : fmod) : result fmod :=
  match roles member value with
  | None => Ok value
  | Some (st, md) =>
      match merge_obj (body st) (body md) with
      | Done t => Ok (mkF (is_pyi md) t)
      | Raised EAlias p => Ok (if is_pyi member then mkF (is_pyi value) p else value)
      | Raised e _ => Err e
      end
  end.

(* ---- loader.py _load_package with package.stubs set: the stubs module is first assigned into the modules
   collection under the same name (set_member: implicit merge, alias errors suppressed, result discarded but the
   mutation of top stays), the stubs package's submodules [subs] are then loaded into the stubs module, and
   merge_stubs(top_module, stubs) runs unguarded. ---- *)
Definition add_members (t : tree) (subs : list (string * tree)) : tree :=
  match t with
  | Obj d ms => Obj d (fold_left (fun acc p => assign (fst p) (snd p) acc) subs ms)
  | _ => t
  end.

Definition load_package (top stubs_init : tree) (subs : list (string * tree)) : result tree :=
  match merge_obj stubs_init top with
  | Done top1 =>
      match merge_obj (add_members (residual stubs_init top) subs) top1 with
      | Done t => Ok t
      | Raised e _ => Err e
      end
  | Raised EAlias p =>      (* suppressed the first time; the unguarded second merge meets the same entry *)
      match merge_obj (add_members (residual stubs_init top) subs) p with
      | Done t => Ok t
      | Raised e _ => Err e
      end
  | Raised e _ => Err e
  end.

Definition is_alias (t : tree) : bool := match t with Al _ _ => true | _ => false end.
Definition buf_of (d : node) : list (string * list string) := match nov d with OvDict b => b | _ => [] end.

(* ---- s-expression interface ---- *)
Definition dec_kind (s : sexp) : option kind :=
  match s with
  | SStr "module" => Some KMod | SStr "class" => Some KCls
  | SStr "function" => Some KFun | SStr "attribute" => Some KAttr
  | _ => None
  end.
Definition enc_kind (k : kind) : sexp :=
  SStr (match k with KMod => "module" | KCls => "class" | KFun => "function" | KAttr => "attribute" end).

Definition dec_pair {A B} (f : sexp -> option A) (g : sexp -> option B) (s : sexp) : option (A * B) :=
  match s with SList [a; b] => do a' <- f a; do b' <- g b; Some (a', b') | _ => None end.

Definition dec_ov (s : sexp) : option ovf :=
  match s with
  | SList [SStr "none"] => Some OvNone
  | SList [SStr "list"; l] => do l' <- as_list_of as_str l; Some (OvList l')
  | SList [SStr "dict"; d] => do d' <- as_list_of (dec_pair as_str (as_list_of as_str)) d; Some (OvDict d')
  | _ => None
  end.
Definition enc_strs (l : list string) : sexp := SList (map SStr l).
Definition enc_ov (o : ovf) : sexp :=
  match o with
  | OvNone => SList [SStr "none"]
  | OvList l => SList [SStr "list"; enc_strs l]
  | OvDict d => SList [SStr "dict"; SList (map (fun e => SList [SStr (fst e); enc_strs (snd e)]) d)]
  end.

Definition dec_node (k doc ps ret ov ann rt imp : sexp) : option node :=
  do k' <- dec_kind k; do doc' <- as_opt as_str doc;
  do ps' <- as_list_of (dec_pair as_str (as_opt as_str)) ps;
  do ret' <- as_opt as_str ret; do ov' <- dec_ov ov; do ann' <- as_opt as_str ann;
  do rt' <- as_bool rt; do imp' <- as_list_of (dec_pair as_str as_str) imp;
  Some (mkNode k' doc' ps' ret' ov' ann' rt' imp').

Fixpoint dec_tree (s : sexp) : option tree :=
  match s with
  | SList [SStr "alias"; SStr tg; rt] => do rt' <- as_bool rt; Some (Al tg rt')
  | SList [SStr "alias_to"; SStr tg; rt; t] => do rt' <- as_bool rt; do t' <- dec_tree t; Some (AlTo tg rt' t')
  | SList [SStr "obj"; k; doc; ps; ret; ov; ann; rt; imp; SList mems] =>
      do d <- dec_node k doc ps ret ov ann rt imp;
      do ms <- (fix dec_mems (l : list sexp) : option (list (string * tree)) :=
                  match l with
                  | [] => Some []
                  | SList [SStr n; t] :: r =>
                      do t' <- dec_tree t; do r' <- dec_mems r; Some ((n, t') :: r')
                  | _ => None
                  end) mems;
      Some (Obj d ms)
  | _ => None
  end.

Definition enc_node_fields (d : node) : list sexp :=
  [enc_kind (nkind d); of_opt SStr (ndoc d);
   SList (map (fun p => SList [SStr (fst p); of_opt SStr (snd p)]) (nparams d));
   of_opt SStr (nret d); enc_ov (nov d); of_opt SStr (nann d); of_bool (nrt d);
   SList (map (fun p => SList [SStr (fst p); SStr (snd p)]) (nimp d))].

Fixpoint enc_tree (t : tree) : sexp :=
  match t with
  | Al tg rt => SList [SStr "alias"; SStr tg; of_bool rt]
  | AlTo tg rt t' => SList [SStr "alias_to"; SStr tg; of_bool rt; enc_tree t']
  | Obj d ms =>
      SList (SStr "obj" :: enc_node_fields d ++
             [SList ((fix enc_mems (l : list (string * tree)) : list sexp :=
                        match l with [] => [] | (n, t') :: r => SList [SStr n; enc_tree t'] :: enc_mems r end) ms)])
  end.

Definition enc_err (e : err) : sexp :=
  SStr (match e with EAlias => "AliasResolutionError" | EAttr => "AttributeError" | EValue => "ValueError" end).
Definition enc_res {A} (f : A -> sexp) (r : result A) : sexp :=
  match r with Ok a => SList [SStr "ok"; f a] | Err e => SList [SStr "err"; enc_err e] end.
Definition enc_outcome (r : outcome) : sexp :=
  match r with
  | Done t => SList [SStr "ok"; enc_tree t]
  | Raised e p => SList [SStr "raised"; enc_err e; enc_tree p]
  end.

Definition dec_fmod (s : sexp) : option fmod :=
  match s with SList [p; t] => do p' <- as_bool p; do t' <- dec_tree t; Some (mkF p' t') | _ => None end.
Definition enc_fmod (m : fmod) : sexp := SList [of_bool (is_pyi m); enc_tree (body m)].

Definition dec_named (s : sexp) : option (string * tree) := dec_pair as_str dec_tree s.

Definition run_C19 (s : sexp) : sexp :=
  match s with
  | SList [SStr "merge"; st; ob] =>
      match dec_tree st, dec_tree ob with
      | Some s', Some o' => enc_outcome (merge_obj s' o')
      | _, _ => bad_input
      end
  | SList [SStr "merge_stubs"; a; b] =>
      match dec_fmod a, dec_fmod b with
      | Some a', Some b' => enc_res enc_fmod (merge_stubs a' b')
      | _, _ => bad_input
      end
  | SList [SStr "set_member"; a; b] =>
      match dec_fmod a, dec_fmod b with
      | Some a', Some b' => enc_res enc_fmod (set_member_module a' b')
      | _, _ => bad_input
      end
  | SList [SStr "load_package"; top; st; subs] =>
      match dec_tree top, dec_tree st, as_list_of dec_named subs with
      | Some t', Some s', Some l' => enc_res enc_tree (load_package t' s' l')
      | _, _, _ => bad_input
      end
  | _ => bad_input
  end.
