(* C13 model, part 5: s-expression codecs and the entry point run_C13. *)
From Coq Require Import List Ascii String Bool Arith ZArith.
From Verif Require Import Lib.Sexp Model.C13_strings Model.C13_google Model.C13_google_spec Model.C13_sphinx Model.C13_numpy Model.C13_numpy_spec Model.C13_sphinx_spec Model.C13_history.
Import ListNotations.
Open Scope string_scope.
Open Scope list_scope.
Open Scope nat_scope.

Definition to_s (s : str) : string := string_of_list_ascii s.
Definition enc_str (s : str) : sexp := SStr (to_s s).
Definition dec_str (s : sexp) : option str := match s with SStr x => Some (list_ascii_of_string x) | _ => None end.
Definition enc_ostr (o : option str) : sexp := of_opt enc_str o.
Definition dec_ostr (s : sexp) : option (option str) := as_opt dec_str s.
Definition dec_strs (s : sexp) : option (list str) := as_list_of dec_str s.

Definition kind_name (k : kind) : string :=
  match k with
  | KParams => "parameters" | KOther => "other parameters" | KRaises => "raises" | KWarns => "warns"
  | KExamples => "examples" | KAttrs => "attributes" | KFuncs => "functions" | KClasses => "classes"
  | KModules => "modules" | KReturns => "returns" | KYields => "yields" | KReceives => "receives"
  | KDeprecated => "deprecated"
  end.

Definition dec_rpart (s : sexp) : option rpart :=
  match s with
  | SList [SStr "name"; x] => do x' <- dec_str x; Some (RPName x')
  | SList [SStr "tuple"; w; es] => do w' <- dec_str w; do es' <- dec_strs es; Some (RPTuple w' es')
  | _ => None
  end.

Definition dec_rann (s : sexp) : option rann :=
  match s with
  | SList [SStr "none"] => Some RNone
  | SList [SStr "plain"; p] => do p' <- dec_rpart p; Some (RPlain p')
  | SList [SStr "iter"; w; p] => do w' <- dec_str w; do p' <- dec_rpart p; Some (RIter w' p')
  | SList [SStr "gen"; w; y; s0; r] =>
      do w' <- dec_str w; do y' <- dec_rpart y; do s' <- dec_rpart s0; do r' <- dec_rpart r; Some (RGen w' y' s' r')
  | _ => None
  end.

Definition dec_param (s : sexp) : option (str * (option str * option str)) :=
  match s with
  | SList [n; a; d] => do n' <- dec_str n; do a' <- dec_ostr a; do d' <- dec_ostr d; Some (n', (a', d'))
  | _ => None
  end.
Definition dec_attr (s : sexp) : option (str * option str) :=
  match s with
  | SList [n; a] => do n' <- dec_str n; do a' <- dec_ostr a; Some (n', a')
  | _ => None
  end.

Definition dec_ctx (s : sexp) : option pctx :=
  match s with
  | SList [ps; ats; r] =>
      do ps' <- as_opt (as_list_of dec_param) ps;
      do ats' <- as_opt (as_list_of dec_attr) ats;
      do r' <- dec_rann r;
      Some (mkCtx ps' ats' r')
  | _ => None
  end.

Definition dec_opts (s : sexp) : option gopts :=
  match s with
  | SList [a; b; c; d; e] =>
      do a' <- as_bool a; do b' <- as_bool b; do c' <- as_bool c; do d' <- as_bool d; do e' <- as_bool e;
      Some (mkOpts a' b' c' d' e')
  | _ => None
  end.

Definition enc_item (p : pitem) : sexp :=
  SList [enc_ostr (p_name p); enc_ostr (p_ann p); enc_str (p_desc p); enc_ostr (p_value p)].

Definition enc_chunk (c : bool * str) : sexp := SList [of_bool (fst c); enc_str (snd c)].

Definition enc_gsec (s : gsec) : sexp :=
  match s with
  | GText v => SList [SStr "text"; enc_str v]
  | GItems k t its => SList [SStr "items"; SStr (kind_name k); enc_ostr t; SList (map enc_item its)]
  | GAdm k t x => SList [SStr "adm"; enc_str k; enc_str t; enc_str x]
  | GExamples t ch => SList [SStr "examples"; enc_ostr t; SList (map enc_chunk ch)]
  end.

Definition enc_presult (r : presult) : sexp :=
  match r with
  | POk l => SList [SStr "ok"; SList (map enc_gsec l)]
  | PErr e => SList [SStr "err"; SStr e]
  | PFuel => SList [SStr "fuel"]
  end.

Definition dec_witem (s : sexp) : option witem :=
  match s with
  | SList [n; a; d0; cs] =>
      do n' <- dec_ostr n; do a' <- dec_ostr a; do d' <- dec_str d0; do cs' <- dec_strs cs; Some (mkW n' a' d' cs')
  | _ => None
  end.

Definition dec_wsec (s : sexp) : option wsec :=
  match s with
  | SList [SStr "text"; ls] => do ls' <- dec_strs ls; Some (WText ls')
  | SList [SStr "items"; SStr k; h; t; its] =>
      do k' <- kind_of_name k; do h' <- dec_str h; do t' <- dec_ostr t; do its' <- as_list_of dec_witem its;
      Some (WItems k' h' t' its')
  | SList [SStr "adm"; h; t; ls] => do h' <- dec_str h; do t' <- dec_ostr t; do ls' <- dec_strs ls; Some (WAdm h' t' ls')
  | SList [SStr "examples"; tr; h; t; chs] =>
      do tr' <- as_bool tr; do h' <- dec_str h; do t' <- dec_ostr t;
      do chs' <- as_list_of (fun s => match s with
                                      | SList [b; ls] => do b' <- as_bool b; do ls' <- dec_strs ls; Some (b', ls')
                                      | _ => None end) chs;
      Some (WExamples tr' h' t' chs')
  | SList [SStr "ret"; m; n; SStr k; h; t; its] =>
      do m' <- as_bool m; do n' <- as_bool n;
      do k' <- kind_of_name k; do h' <- dec_str h; do t' <- dec_ostr t; do its' <- as_list_of dec_witem its;
      Some (WRet m' n' k' h' t' its')
  | _ => None
  end.

Definition dec_sfield (s : sexp) : option sfield :=
  match s with
  | SList [SStr "param"; SStr fn; ty; n; d0; cs] =>
      do ty' <- dec_ostr ty; do n' <- dec_str n; do d' <- dec_str d0; do cs' <- dec_strs cs; Some (SFParam fn ty' n' d' cs')
  | SList [SStr "var"; SStr fn; n; d0; cs] => do n' <- dec_str n; do d' <- dec_str d0; do cs' <- dec_strs cs; Some (SFVar fn n' d' cs')
  | SList [SStr "raises"; SStr fn; n; d0; cs] => do n' <- dec_str n; do d' <- dec_str d0; do cs' <- dec_strs cs; Some (SFRaises fn n' d' cs')
  | SList [SStr "returns"; SStr fn; d0; cs] => do d' <- dec_str d0; do cs' <- dec_strs cs; Some (SFReturns fn d' cs')
  | _ => None
  end.

Definition dec_default (s : sexp) : option (option (nat * str)) :=
  match s with
  | SList [] => Some None
  | SList [SList [f; v]] => do f' <- as_nat f; do v' <- dec_str v; Some (Some (f', v'))
  | _ => None
  end.

Definition dec_nitem (s : sexp) : option nitem :=
  match s with
  | SList [ns; a; d; o; desc; sep] =>
      do ns' <- dec_strs ns; do a' <- dec_ostr a; do d' <- dec_default d; do o' <- as_bool o; do desc' <- dec_strs desc;
      do sep' <- as_nat sep; Some (mkNI ns' a' d' o' desc' sep')
  | _ => None
  end.

Definition dec_nsec (s : sexp) : option nsec :=
  match s with
  | SList [SStr "text"; ls] => do ls' <- dec_strs ls; Some (NText ls')
  | SList [SStr "items"; SStr k; h; its] =>
      do k' <- kind_of_name k; do h' <- dec_str h; do its' <- as_list_of dec_nitem its; Some (NItems k' h' its')
  | SList [SStr "adm"; h; ls] => do h' <- dec_str h; do ls' <- dec_strs ls; Some (NAdm h' ls')
  | SList [SStr "deprecated"; h; v; ls] => do h' <- dec_str h; do v' <- dec_str v; do ls' <- dec_strs ls; Some (NDeprecated h' v' ls')
  | SList [SStr "examples"; tr; h; chs] =>
      do tr' <- as_bool tr; do h' <- dec_str h;
      do chs' <- as_list_of (fun s => match s with
                                      | SList [b; ls] => do b' <- as_bool b; do ls' <- dec_strs ls; Some (b', ls')
                                      | _ => None end) chs;
      Some (NExamples tr' h' chs')
  | _ => None
  end.

Definition dec_xfield (s : sexp) : option xfield :=
  match s with
  | SList [SStr "param"; SStr fn; ty; n; d0; cs] =>
      do ty' <- dec_ostr ty; do n' <- dec_str n; do d' <- dec_str d0; do cs' <- dec_strs cs; Some (XParam fn ty' n' d' cs')
  | SList [SStr "type"; n; a; b] => do n' <- dec_str n; do a' <- dec_str a; do b' <- as_nat b; Some (XType n' a' b')
  | SList [SStr "var"; SStr fn; n; d0; cs] => do n' <- dec_str n; do d' <- dec_str d0; do cs' <- dec_strs cs; Some (XVar fn n' d' cs')
  | SList [SStr "vartype"; n; a; b] => do n' <- dec_str n; do a' <- dec_str a; do b' <- as_nat b; Some (XVartype n' a' b')
  | SList [SStr "raises"; SStr fn; n; d0; cs] => do n' <- dec_str n; do d' <- dec_str d0; do cs' <- dec_strs cs; Some (XRaises fn n' d' cs')
  | SList [SStr "returns"; SStr fn; d0; cs] => do d' <- dec_str d0; do cs' <- dec_strs cs; Some (XReturns fn d' cs')
  | SList [SStr "rtype"; a; b] => do a' <- dec_str a; do b' <- as_nat b; Some (XRtype a' b')
  | _ => None
  end.

(* ---- histories *)
Definition okey_of (s : string) : okey :=
  if String.eqb s "returns_multiple_items" then ORetMulti else
  if String.eqb s "returns_named_value" then ORetNamed else
  if String.eqb s "receives_multiple_items" then ORecMulti else
  if String.eqb s "receives_named_value" then ORecNamed else
  if String.eqb s "trim_doctest_flags" then OTrim else
  if String.eqb s "ignore_init_summary" then OIgnoreInit else OOther.
Definition okey_name (k : okey) : string :=
  match k with
  | ORetMulti => "returns_multiple_items" | ORetNamed => "returns_named_value" | ORecMulti => "receives_multiple_items"
  | ORecNamed => "receives_named_value" | OTrim => "trim_doctest_flags" | OIgnoreInit => "ignore_init_summary" | OOther => "other"
  end.
Definition dec_odict (s : sexp) : option odict :=
  as_list_of (fun e => match e with SList [SStr k; v] => do v' <- as_bool v; Some (okey_of k, v') | _ => None end) s.
Definition enc_odict (d : odict) : sexp := SList (map (fun kv => SList [SStr (okey_name (fst kv)); of_bool (snd kv)]) d).
Definition dec_hstyle (s : sexp) : option (option hstyle) :=
  match s with
  | SList [] => Some None
  | SList [SStr "google"] => Some (Some HGoogle)
  | SList [SStr "numpy"] => Some (Some HNumpy)
  | SList [SStr "sphinx"] => Some (Some HSphinx)
  | _ => None
  end.
Definition dec_hdoc (s : sexp) : option hdoc :=
  match s with
  | SList [c; ii; ra; st; r; ls] =>
      do c' <- dec_ctx c; do ii' <- as_bool ii; do ra' <- as_bool ra; do st' <- dec_hstyle st; do r' <- as_nat r; do ls' <- dec_strs ls;
      Some (mkHD ls' (mkHP c' ii' ra') st' r' None)
  | _ => None
  end.
Definition dec_hop (s : sexp) : option hop :=
  match s with
  | SList [SStr "parse"; i; st; o] => do i' <- as_nat i; do st' <- dec_hstyle st; do o' <- dec_odict o; Some (HParse i' st' o')
  | SList [SStr "parsed"; i] => do i' <- as_nat i; Some (HReadParsed i')
  | SList [SStr "setopts"; i; o] => do i' <- as_nat i; do o' <- dec_odict o; Some (HSetOptions i' o')
  | SList [SStr "mutate"; r; SStr k; v] => do r' <- as_nat r; do v' <- as_bool v; Some (HMutate r' (okey_of k) v')
  | SList [SStr "setvalue"; i; ls] => do i' <- as_nat i; do ls' <- dec_strs ls; Some (HSetValue i' ls')
  | SList [SStr "lines"; i] => do i' <- as_nat i; Some (HReadLines i')
  | _ => None
  end.
Definition enc_hres (r : hres) : sexp :=
  match r with
  | HPlain v => SList [SStr "plain"; enc_str v]
  | HG p => enc_presult p
  | HN p => enc_presult p
  | HS l => SList [SStr "ok"; SList (map enc_gsec l)]
  end.
Definition enc_hobs (o : hobs) : sexp :=
  match o with
  | ObsRes r => SList [SStr "res"; enc_hres r]
  | ObsLines l => SList [SStr "lines"; SList (map enc_str l)]
  | ObsNone => SList [SStr "none"]
  | ObsBadIndex => SList [SStr "bad"]
  end.

Definition enc_pair (p : str * str) : sexp := SList [enc_str (fst p); enc_str (snd p)].

(* string-function oracle: ("str" name args...) *)
Definition run_str (name : string) (args : list sexp) : sexp :=
  match args with
  | [a] =>
      match dec_str a with
      | None => bad_input
      | Some s =>
          if String.eqb name "lstrip" then enc_str (lstrip s) else
          if String.eqb name "rstrip" then enc_str (rstrip s) else
          if String.eqb name "strip" then enc_str (strip s) else
          if String.eqb name "rstrip_nl" then enc_str (rstrip_nl s) else
          if String.eqb name "lstrip_sp" then enc_str (lstrip_sp s) else
          if String.eqb name "strip_parens" then enc_str (strip_parens s) else
          if String.eqb name "remove_optional" then enc_str (removesuffix s_optional s) else
          if String.eqb name "lower" then enc_str (lower s) else
          if String.eqb name "is_empty_line" then of_bool (is_empty_line s) else
          if String.eqb name "indent_of" then of_nat (indent_of s) else
          if String.eqb name "split_colon" then of_opt enc_pair (split_first colon s) else
          if String.eqb name "split_space" then of_opt enc_pair (split_first sp s) else
          if String.eqb name "split_lparen" then of_opt enc_pair (split_first lparen s) else
          if String.eqb name "split_nl" then SList (map enc_str (split_nl s)) else
          if String.eqb name "splitlines" then SList (map enc_str (splitlines s)) else
          if String.eqb name "trim_flags" then enc_str (trim_flags s) else
          if String.eqb name "trim_blankline" then enc_str (trim_blankline s) else
          if String.eqb name "dashify" then enc_str (dashify s) else
          if String.eqb name "replace_or" then enc_str (replace_or s) else
          if String.eqb name "split_all_sp" then SList (map enc_str (split_all sp s)) else
          if String.eqb name "re_admonition" then
            of_opt (fun p : str * option str => SList [enc_str (fst p); enc_ostr (snd p)]) (re_admonition s) else
          if String.eqb name "re_nad" then
            (let '(n, t, d) := re_name_annotation_description s in SList [enc_ostr n; enc_ostr t; enc_str d]) else
          if String.eqb name "is_dash_line" then of_bool (is_dash_line s) else
          if String.eqb name "re_parameter" then
            match re_parameter s with
            | ReNo => SList []
            | ReFuel => SStr "fuel"
            | ReYes (n, ch, ty) => SList [SList [enc_str n; enc_ostr ch; enc_ostr ty]]
            end else
          if String.eqb name "re_returns" then
            of_opt (fun p : option str * option str => SList [enc_ostr (fst p); enc_ostr (snd p)]) (re_returns s) else
          if String.eqb name "find_default" then of_opt enc_pair (find_default s) else
          if String.eqb name "split_cs" then SList (map enc_str (split_cs false s)) else
          if String.eqb name "dedent" then enc_str (join_nl (dedent (split_nl s))) else
          if String.eqb name "n_adm_kind" then enc_str (n_adm_kind s) else
          if String.eqb name "unnamed" then
            match get_nad false [s] with
            | Some (n, t, d) => SList [enc_ostr n; enc_ostr t; enc_str d]
            | None => bad_input
            end else
          bad_input
      end
  | [a; b] =>
      match dec_str a, dec_str b with
      | Some p, Some s =>
          if String.eqb name "startswith" then of_bool (startswith p s) else
          if String.eqb name "endswith" then of_bool (endswith p s) else
          if String.eqb name "removesuffix" then enc_str (removesuffix p s) else
          bad_input
      | _, _ => bad_input
      end
  | _ => bad_input
  end.

Definition run_C13 (s : sexp) : sexp :=
  match s with
  | SList [SStr "gparse"; o; c; ls] =>
      match dec_opts o, dec_ctx c, dec_strs ls with
      | Some o', Some c', Some ls' => enc_presult (parse_google o' c' ls')
      | _, _, _ => bad_input
      end
  | SList [SStr "grender"; n; secs] =>
      match as_nat n, as_list_of dec_wsec secs with
      | Some n', Some secs' => SList (map enc_str (render_google n' secs'))
      | _, _ => bad_input
      end
  | SList [SStr "gexpect"; c; secs] =>
      match dec_ctx c, as_list_of dec_wsec secs with
      | Some c', Some secs' => SList (map enc_gsec (expect_google c' secs'))
      | _, _ => bad_input
      end
  | SList [SStr "gwf"; o; c; secs] =>
      match dec_opts o, dec_ctx c, as_list_of dec_wsec secs with
      | Some o', Some c', Some secs' => of_bool (wf_secs o' c' secs')
      | _, _, _ => bad_input
      end
  | SList [SStr "hist"; heap; docs; ops] =>
      match as_list_of dec_odict heap, as_list_of dec_hdoc docs, as_list_of dec_hop ops with
      | Some h, Some ds, Some os =>
          let '(st, obs) := hexec (mkHS h ds) os in
          SList [SList (map enc_hobs obs); SList (map enc_odict (hs_heap st)); SList (map (fun d => of_nat (hd_ref d)) (hs_docs st))]
      | _, _, _ => bad_input
      end
  | SList [SStr "nparse"; SList [tr; sk]; c; ls] =>
      match as_bool tr, as_bool sk, dec_ctx c, dec_strs ls with
      | Some tr', Some sk', Some c', Some ls' => enc_presult (parse_numpy (mkNOpts tr' sk') c' ls')
      | _, _, _, _ => bad_input
      end
  | SList [SStr "nspec"; c; secs] =>
      match dec_ctx c, as_list_of dec_nsec secs with
      | Some c', Some secs' =>
          SList [SList (map enc_str (render_numpy secs')); SList (map enc_gsec (expect_numpy c' secs'));
                 of_bool (wf_nsecs c' secs'); of_bool (gap_F6 c' secs')]
      | _, _ => bad_input
      end
  | SList [SStr "sparse"; c; ra; ls] =>
      match dec_ctx c, as_bool ra, dec_strs ls with
      | Some c', Some ra', Some ls' => SList (map enc_gsec (parse_sphinx c' ra' ls'))
      | _, _, _ => bad_input
      end
  | SList [SStr "xspec"; c; ra; text; fs] =>
      match dec_ctx c, as_bool ra, dec_strs text, as_list_of dec_xfield fs with
      | Some c', Some ra', Some t', Some fs' =>
          SList [SList (map enc_str (render_sphinx_full t' fs')); SList (map enc_gsec (expect_sphinx_full c' ra' t' fs'));
                 of_bool (wf_sphinx_full t' fs'); of_bool (gap_F8 c' fs')]
      | _, _, _, _ => bad_input
      end
  | SList [SStr "sspec"; c; ra; text; fs] =>
      match dec_ctx c, as_bool ra, dec_strs text, as_list_of dec_sfield fs with
      | Some c', Some ra', Some t', Some fs' =>
          SList [SList (map enc_str (render_sphinx t' fs')); SList (map enc_gsec (expect_sphinx c' ra' t' fs')); of_bool (wf_sphinx t' fs')]
      | _, _, _, _ => bad_input
      end
  | SList (SStr "str" :: SStr name :: args) => run_str name args
  | _ => bad_input
  end.
