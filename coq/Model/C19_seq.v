(* C19 model, third part: the modules of ONE package arriving in discovery order (loader.py:_load_submodules ->
   _load_submodule -> parent.set_member), with aliases kept SYMBOLIC between merges and resolved against what is loaded
   at the moment of a merge.  This is where the order between THIRD files enters: an alias of the runtime module whose
   target module has not arrived yet is unresolvable at merge time (merger.py suppresses AliasResolutionError: nothing is
   merged under that name), one whose target has arrived is merged THROUGH (the target object is mutated), also through
   chains of aliases (final_target).
   State: module name -> (is the stubs file?, tree).  In a stored tree every alias is [Al target runtime].
   Executable definitions only. *)
From Coq Require Import List ZArith String Ascii Bool Arith.
From Verif Require Import Lib.Sexp Model.C19_merge.
Import ListNotations.
Open Scope string_scope.
Open Scope list_scope.
Open Scope nat_scope.

(* "pkg.m.X" -> ["pkg"; "m"; "X"] *)
Fixpoint split_dots (s cur : string) : list string :=
  match s with
  | EmptyString => [cur]
  | String c r => if Ascii.eqb c "."%char then cur :: split_dots r "" else split_dots r (cur ++ String c "")
  end.

Definition state := list (string * fmod).

(* the object stored at a path below a module: through classes only (ModulesCollection.get_member on plain objects) *)
Fixpoint get_path (p : list string) (t : tree) : option tree :=
  match p with
  | [] => Some t
  | n :: r => match t with
              | Obj _ ms => match lookup n ms with Some m => get_path r m | None => None end
              | _ => None
              end
  end.

Fixpoint put_path (p : list string) (x : tree) (t : tree) : tree :=
  match p with
  | [] => x
  | n :: r => match t with
              | Obj d ms => match lookup n ms with
                            | Some m => Obj d (assign n (put_path r x m) ms)
                            | None => t
                            end
              | _ => t
              end
  end.

Definition find (pk : string) (st : state) (tg : string) : option tree :=
  match split_dots tg "" with
  | p :: m :: rest =>
      if String.eqb p pk then
        match lookup m st with Some fm => get_path rest (body fm) | None => None end
      else None
  | _ => None
  end.

Definition store (pk : string) (tg : string) (x : tree) (st : state) : state :=
  match split_dots tg "" with
  | p :: m :: rest =>
      if String.eqb p pk then
        match lookup m st with
        | Some fm => assign m (mkF (is_pyi fm) (put_path rest x (body fm))) st
        | None => st
        end
      else st
  | _ => st
  end.

(* Alias.resolve_target / final_target against the loaded modules: every alias whose target is loaded carries the value
   found there (itself resolved: chains, aliases inside the target).  fuel bounds the chain length + nesting depth;
   out of fuel = left unresolved (the harness compares: generated chains are shorter than the fuel it passes). *)
Fixpoint rtree (fuel : nat) (pk : string) (st : state) (t : tree) : tree :=
  match fuel with
  | 0 => t
  | S f =>
      match t with
      | Al tg rt => match find pk st tg with Some x => AlTo tg rt (rtree f pk st x) | None => t end
      | Obj d ms => Obj d (map (fun p => (fst p, rtree f pk st (snd p))) ms)
      | AlTo _ _ _ => t
      end
  end.

Definition is_module_path (tg : string) : bool := match split_dots tg "" with [_; _] => true | _ => false end.

(* after the merge: the aliases become symbolic again, the (possibly mutated) values they carried go back to where the
   final targets live.  Returns the symbolic tree and the updates (target path, value), innermost first. *)
Fixpoint unresolve (t : tree) : tree * list (string * tree) :=
  match t with
  | Al tg rt => (t, [])
  | AlTo tg rt x =>
      let (x', ups) := unresolve x in
      match x with
      | Obj _ _ =>
          (* an alias to a MODULE is never merged through (no stub member has kind module, pending overloads go to
             functions): its value is unchanged and is not stored back - other aliases may have reached into that module *)
          if is_module_path tg then (Al tg rt, []) else (Al tg rt, ups ++ [(tg, x')])
      | _ => (Al tg rt, ups)            (* the target is an alias itself: it stays what it is, its own target was updated *)
      end
  | Obj d ms =>
      let r := (fix go (l : list (string * tree)) : list (string * tree) * list (string * tree) :=
                  match l with
                  | [] => ([], [])
                  | (n, m) :: rest =>
                      let (m', u1) := unresolve m in
                      let (rest', u2) := go rest in
                      ((n, m') :: rest', u1 ++ u2)
                  end) ms in
      (Obj d (fst r), snd r)
  end.

Definition apply_updates (pk : string) (ups : list (string * tree)) (st : state) : state :=
  fold_left (fun acc u => store pk (fst u) (snd u) acc) ups st.

(* aliases of the runtime module that the merge goes through: a resolvable alias with a stub OBJECT under the same name
   (top level of the module) - these get bound to the object they resolve to *)
Definition touched (stubs_ms runtime_ms : list (string * tree)) : list (string * string) :=
  flat_map (fun p => match snd p with
                     | AlTo tg _ _ => match lookup (fst p) stubs_ms with Some (Obj _ _) => [(fst p, tg)] | _ => [] end
                     | _ => []
                     end) runtime_ms.

Definition members_of (t : tree) : list (string * tree) := match t with Obj _ ms => ms | _ => [] end.

(* a binding: the alias at path b_alias got bound (Alias._target cached) to the object at b_target while the module
   b_home of that object was represented by its STUBS file only *)
Record binding := mkB { b_alias : string; b_target : string; b_home : string }.

Definition home_of (tg : string) : string := match split_dots tg "" with _ :: m :: _ => m | _ => "" end.

(* the chain of aliases that resolving the alias at path [a] (target tg) goes through: (alias path, its target path) *)
Fixpoint chain (fuel : nat) (pk : string) (st : state) (a tg : string) : list (string * string) :=
  match fuel with
  | 0 => []
  | S f => (a, tg) :: match find pk st tg with Some (Al tg2 _) => chain f pk st tg tg2 | _ => [] end
  end.

Definition bound_already (bs : list binding) (a : string) : bool := existsb (fun b => String.eqb (b_alias b) a) bs.

Record seq_state := mkS { s_mods : state; s_bound : list binding; s_stale : list string;
                          s_dirty : bool;      (* a merge went through an alias bound to a dropped object: outside this model *)
                          s_err : option err }.

(* one file arrives: parent.set_member(name, module) *)
Definition arrive (fuel : nat) (pk : string) (s : seq_state) (nf : string * fmod) : seq_state :=
  let (n, f) := nf in
  match s_err s with
  | Some _ => s
  | None =>
      match lookup n (s_mods s) with
      | None => mkS (s_mods s ++ [(n, f)]) (s_bound s) (s_stale s) (s_dirty s) None
      | Some old =>
          match roles old f with
          | None => mkS (assign n f (s_mods s)) (s_bound s) (s_stale s) (s_dirty s) None
          | Some (stb, md) =>
              let md_r := rtree fuel pk (s_mods s) (body md) in
              match merge_obj (body stb) md_r with
              | Done t =>
                  let (t', ups) := unresolve t in
                  let st1 := apply_updates pk ups (assign n (mkF (is_pyi md) t') (s_mods s)) in
                  (* every alias on the chains this merge went through gets bound, unless it was bound before *)
                  let links := flat_map (fun at_ => chain fuel pk (s_mods s) (pk ++ "." ++ n ++ "." ++ fst at_) (snd at_))
                                        (touched (members_of (body stb)) (members_of md_r)) in
                  let dirty := existsb (fun l => existsb (String.eqb (fst l)) (s_stale s)) links in
                  let nb := fold_left (fun acc l =>
                                if bound_already acc (fst l) then acc else
                                let h := home_of (snd l) in
                                match lookup h (s_mods s) with
                                | Some hf => if is_pyi hf then acc ++ [mkB (fst l) (snd l) h] else acc
                                | None => acc
                                end) links (s_bound s) in
                  (* the runtime file replaces the stubs file of n: objects of the stubs module that have a runtime
                     counterpart are dropped - aliases bound to them keep pointing at the dropped objects *)
                  let newly_stale :=
                    if is_pyi old && negb (is_pyi f) then
                      flat_map (fun b => if String.eqb (b_home b) n
                                         then if is_module_path (b_target b) then []     (* set_member re-targets aliases to the module itself *)
                                              else match find pk [(n, f)] (b_target b) with Some _ => [b_alias b] | None => [] end
                                         else []) (s_bound s)
                    else [] in
                  mkS st1 nb (s_stale s ++ newly_stale) (s_dirty s || dirty) None
              | Raised e _ => mkS (s_mods s) (s_bound s) (s_stale s) (s_dirty s) (Some e)
              end
          end
      end
  end.

Definition load_seq (fuel : nat) (pk : string) (files : list (string * fmod)) : seq_state :=
  fold_left (arrive fuel pk) files (mkS [] [] [] false None).

(* ---- s-expression interface: ["load_seq"; fuel; pkg; [[name; [is_pyi; tree]] ...]] -> ["ok"; [[name; [is_pyi; tree]]...]; [stale alias paths]; dirty] *)
Definition dec_file (s : sexp) : option (string * fmod) := dec_pair as_str dec_fmod s.

Definition run_seq (s : sexp) : sexp :=
  match s with
  | SList [SStr "load_seq"; fu; SStr pk; fl] =>
      match as_nat fu, as_list_of dec_file fl with
      | Some fuel, Some files =>
          let r := load_seq fuel pk files in
          match s_err r with
          | Some e => SList [SStr "err"; enc_err e]
          | None => SList [SStr "ok";
                           SList (map (fun p => SList [SStr (fst p); enc_fmod (snd p)]) (s_mods r));
                           SList (map SStr (s_stale r)); of_bool (s_dirty r)]
          end
      | _, _ => bad_input
      end
  | _ => bad_input
  end.
