(* C16 model: the object tree of _griffe (models.py Object/Alias, mixins.py Get/Set/DelMembersMixin,
   collections.py ModulesCollection) as a heap of nodes with parent pointers, member dictionaries,
   alias targets and alias back-references.  Executable definitions only.

   Scope of the model (what is cut is reported as the explicit result [EScope], never silently):
   - navigation THROUGH an alias (Alias.members builds transient aliases) and alias -> alias chains
     (Alias.aliases forwards to final_target) are out of scope;
   - modules carry no filepath, so the stub-merge branch of set_member never fires;
   - classes have no bases, so all_members = members and inherited_members = {}. *)
From Coq Require Import List ZArith String Ascii Bool Arith.
From Verif Require Import Lib.Sexp.
From Verif Require Import Gen.C16_shape.
Import ListNotations.
Open Scope string_scope.
Open Scope list_scope.
Open Scope nat_scope.

Definition name := string.
Definition path := list name.

Inductive kind := KMod | KCls | KFun | KAttr | KAli.
Definition is_ali (k : kind) : bool := match k with KAli => true | _ => false end.
Definition is_mod (k : kind) : bool := match k with KMod => true | _ => false end.

Record node := mkNode {
  nname : name;                      (* obj.name *)
  nkind : kind;
  nparent : option nat;              (* Object.parent / Alias._parent *)
  nmembers : list (name * nat);      (* Object.members, insertion ordered; always [] for an alias *)
  ntarget : option nat;              (* Alias._target *)
  ntpath : path;                     (* Alias.target_path, split on dots *)
  naliases : list (path * nat);      (* Object.aliases: alias path -> alias *)
  nmc : bool }.                      (* _modules_collection is set (to THE collection) *)

Record state := mkState { heap : list node; root : list (name * nat) }.   (* root = ModulesCollection.members *)
Definition init : state := mkState [] [].

(* Python exceptions, as a small enumeration *)
Inductive err :=
| EMissing      (* KeyError / AttributeError: no such member, or an attribute of None *)
| EValue        (* ValueError: empty key; "no modules collection" *)
| ECyclic       (* CyclicAliasError *)
| EUnres        (* AliasResolutionError *)
| EScope        (* outside the modelled fragment: through an alias, or alias -> alias *)
| EFuel         (* parent chain longer than the heap: cyclic parents, RecursionError in Python *)
| EBad.         (* ill-formed operation: id out of range, wrong node kind *)

Inductive res (A : Type) := Ok (a : A) | Err (e : err).
Arguments Ok {A} a. Arguments Err {A} e.

(* ---- dictionaries as association lists (Python dict: replace in place, else append) *)
Section Assoc.
  Context {K V : Type} (eqb : K -> K -> bool).
  Fixpoint lookup (k : K) (l : list (K * V)) : option V :=
    match l with [] => None | (k', v) :: r => if eqb k k' then Some v else lookup k r end.
  Fixpoint put (k : K) (v : V) (l : list (K * V)) : list (K * V) :=
    match l with
    | [] => [(k, v)]
    | (k', v') :: r => if eqb k k' then (k', v) :: r else (k', v') :: put k v r
    end.
  Fixpoint del (k : K) (l : list (K * V)) : list (K * V) :=
    match l with [] => [] | (k', v') :: r => if eqb k k' then del k r else (k', v') :: del k r end.
End Assoc.

Fixpoint path_eqb (p q : path) : bool :=
  match p, q with
  | [], [] => true
  | a :: p', b :: q' => String.eqb a b && path_eqb p' q'
  | _, _ => false
  end.

Definition mlookup := @lookup name nat String.eqb.
Definition mput := @put name nat String.eqb.
Definition mdel := @del name nat String.eqb.
Definition alookup := @lookup path nat path_eqb.
Definition aput := @put path nat path_eqb.

(* ---- heap access *)
Definition getn (s : state) (i : nat) : option node := nth_error (heap s) i.

Fixpoint upd (h : list node) (i : nat) (f : node -> node) : list node :=
  match h with
  | [] => []
  | n :: r => match i with 0 => f n :: r | S j => n :: upd r j f end
  end.

Definition with_parent (p : option nat) (n : node) :=
  mkNode (nname n) (nkind n) p (nmembers n) (ntarget n) (ntpath n) (naliases n) (nmc n).
Definition with_members (ms : list (name * nat)) (n : node) :=
  mkNode (nname n) (nkind n) (nparent n) ms (ntarget n) (ntpath n) (naliases n) (nmc n).
Definition with_target (t : option nat) (tp : path) (n : node) :=
  mkNode (nname n) (nkind n) (nparent n) (nmembers n) t tp (naliases n) (nmc n).
Definition with_aliases (al : list (path * nat)) (n : node) :=
  mkNode (nname n) (nkind n) (nparent n) (nmembers n) (ntarget n) (ntpath n) al (nmc n).
Definition with_mc (n : node) :=
  mkNode (nname n) (nkind n) (nparent n) (nmembers n) (ntarget n) (ntpath n) (naliases n) true.

Definition upd_state (s : state) (i : nat) (f : node -> node) : state := mkState (upd (heap s) i f) (root s).

(* ---- obj.path: Object.canonical_path / Alias.path follow the parent pointers *)
Inductive pres := POk (p : path) | PAttr | PFuel.

Fixpoint pth (h : list node) (fuel : nat) (i : nat) : pres :=
  match fuel with
  | 0 => PFuel
  | S f =>
    match nth_error h i with
    | None => PAttr
    | Some n =>
      match nparent n with
      | None => if is_ali (nkind n) then PAttr else POk [nname n]     (* Alias.path: None.path -> AttributeError *)
      | Some p => match pth h f p with POk pp => POk (pp ++ [nname n]) | e => e end
      end
    end
  end.

Definition path_of (s : state) (i : nat) : pres := pth (heap s) (List.length (heap s)) i.

(* ---- obj.modules_collection *)
Fixpoint find_mc (h : list node) (fuel : nat) (i : nat) : res unit :=
  match fuel with
  | 0 => Err EFuel
  | S f =>
    match nth_error h i with
    | None => Err EBad
    | Some n =>
      if is_ali (nkind n) then
        match nparent n with None => Err EMissing | Some p => find_mc h f p end
      else if nmc n then Ok tt
      else match nparent n with None => Err EValue | Some p => find_mc h f p end
    end
  end.

Definition has_mc (s : state) (i : nat) : res unit := find_mc (heap s) (List.length (heap s)) i.

(* ---- navigation: _get_parts has already split the key; receivers are the collection or an object *)
Inductive recv := RRoot | RObj (i : nat).

Definition members_r (s : state) (r : recv) : res (list (name * nat)) :=
  match r with
  | RRoot => Ok (root s)
  | RObj i => match getn s i with
              | None => Err EBad
              | Some n => if is_ali (nkind n) then Err EScope else Ok (nmembers n)
              end
  end.

(* the container that finally holds the key, and the key *)
Fixpoint locate (s : state) (r : recv) (p : path) : res (recv * name) :=
  match p with
  | [] => Err EValue
  | k :: rest =>
    match members_r s r with
    | Err e => Err e
    | Ok ms =>
      match rest with
      | [] => Ok (r, k)
      | _ :: _ => match mlookup k ms with
                  | None => Err EMissing
                  | Some x => locate s (RObj x) rest
                  end
      end
    end
  end.

Definition get_at (s : state) (c : recv) (k : name) : res nat :=
  match members_r s c with
  | Err e => Err e
  | Ok ms => match mlookup k ms with Some x => Ok x | None => Err EMissing end
  end.

(* get_member / __getitem__: chained lookup (Proofs: get = locate followed by get_at) *)
Fixpoint get (s : state) (r : recv) (p : path) : res nat :=
  match p with
  | [] => Err EValue
  | k :: rest =>
    match members_r s r with
    | Err e => Err e
    | Ok ms =>
      match mlookup k ms with
      | None => Err EMissing
      | Some x => match rest with [] => Ok x | _ :: _ => get s (RObj x) rest end
      end
    end
  end.

(* ---- Alias._update_target_aliases (silent) and the registration at the end of the target setter *)
Definition add_backref (s : state) (t : nat) (p : path) (a : nat) : state :=
  upd_state s t (fun tn => with_aliases (aput p a (naliases tn)) tn).

Definition update_target_aliases (s : state) (a : nat) : res state :=
  match getn s a with
  | None => Ok s
  | Some n =>
    match ntarget n with
    | None => Ok s                                  (* AttributeError on None, suppressed *)
    | Some t => match path_of s a with
                | POk p => Ok (add_backref s t p a)
                | PAttr => Ok s                     (* suppressed *)
                | PFuel => Err EFuel
                end
    end
  end.

Definition kind_of (s : state) (i : nat) : option kind := option_map nkind (getn s i).

(* Alias.target setter: alias.target = value *)
Definition set_target (s : state) (a v : nat) : res state :=
  match kind_of s a, kind_of s v with
  | Some KAli, Some kv =>
    if Nat.eqb v a then Err ECyclic
    else match path_of s v with
         | PAttr => Err EMissing
         | PFuel => Err EFuel
         | POk vp =>
           match path_of s a with
           | PAttr => Err EMissing
           | PFuel => Err EFuel
           | POk ap =>
             if path_eqb vp ap then Err ECyclic
             else if is_ali kv then Err EScope
             else Ok (add_backref (upd_state s a (with_target (Some v) vp)) v ap a)
           end
         end
  | _, _ => Err EBad
  end.

(* for alias in member.aliases.values(): with suppress(CyclicAliasError): alias.target = value *)
Fixpoint retarget_all (s : state) (als : list nat) (v : nat) : state * option err :=
  match als with
  | [] => (s, None)
  | a :: r => match set_target s a v with
              | Ok s' => retarget_all s' r v
              | Err ECyclic => retarget_all s r v
              | Err e => (s, Some e)
              end
  end.

(* self.members[name] = value; then value._modules_collection = self / value.parent = self *)
Definition write_member (s : state) (c : recv) (k : name) (v : nat) : res state :=
  match c with
  | RRoot => Ok (mkState (upd (heap s) v with_mc) (mput k v (root s)))
  | RObj i =>
    let s1 := upd_state s i (fun n => with_members (mput k v (nmembers n)) n) in
    let s2 := upd_state s1 v (with_parent (Some i)) in
    match kind_of s v with
    | Some KAli => update_target_aliases s2 v      (* Alias.parent setter *)
    | _ => Ok s2
    end
  end.

Inductive api := Producer | Consumer.      (* set_member / del_member  vs  __setitem__ / __delitem__ *)

(* the part of set_member that runs when the name is already bound: the stub-merge probe (it can raise), then which
   aliases are to be re-targeted *)
Definition replace_probe (s : state) (m v : nat) : option err :=
  match getn s m, getn s v with
  | Some mn, Some vn =>
    if is_ali (nkind mn) then None
    else if Nat.eqb m v then
      (* re-assigning the object that already is the member under that key: the loop then iterates over the very
         dictionary it writes to (RuntimeError when a stale key makes it grow); cut *)
      Some EScope
    else if is_mod (nkind mn) && is_ali (nkind vn) then
      (* value.is_module on an alias: final_target -> value.path / value.target *)
      Some (match nparent vn with None => EMissing | Some _ => EScope end)
    else None
  | _, _ => Some EBad
  end.

(* member.aliases.values() of a non-alias member *)
Definition repl_aliases (s : state) (m : nat) : list nat :=
  match getn s m with
  | Some mn => if is_ali (nkind mn) then [] else map snd (naliases mn)
  | None => []
  end.

(* Everything from here to the end of the section depends on ONE fact about the code that the translator reads from
   the source (Gen.C16_shape.attach_before_retarget): in set_member, is the new member stored and attached BEFORE the
   aliases of the replaced member are re-targeted (ab = true) or after (ab = false)?  The proofs hold for both. *)
Section Flag.
Variable ab : bool.

(* set_member on the container that holds the key *)
Definition set_at (s : state) (a : api) (c : recv) (k : name) (ms : list (name * nat)) (v : nat) : state * option err :=
  match a, mlookup k ms with
  | Producer, Some m =>
    match replace_probe s m v with
    | Some e => (s, Some e)
    | None =>
      if ab then
        match kind_of s v, repl_aliases s m with
        | Some KAli, _ :: _ => (s, Some EScope)      (* the aliases of m would point at the alias v: a chain; cut before anything is written *)
        | _, _ =>
          match write_member s c k v with
          | Err e => (s, Some e)
          | Ok s1 => retarget_all s1 (repl_aliases s1 m) v
          end
        end
      else
        match retarget_all s (repl_aliases s m) v with
        | (s1, Some e) => (s1, Some e)
        | (s1, None) => match write_member s1 c k v with Ok s2 => (s2, None) | Err e => (s1, Some e) end
        end
    end
  | _, _ => match write_member s c k v with Ok s2 => (s2, None) | Err e => (s, Some e) end
  end.

Definition set_value (s : state) (a : api) (r : recv) (p : path) (v : nat) : state * option err :=
  match getn s v with
  | None => (s, Some EBad)
  | Some _ =>
    match locate s r p with
    | Err e => (s, Some e)
    | Ok (c, k) =>
      match members_r s c with
      | Err e => (s, Some e)
      | Ok ms => set_at s a c k ms v
      end
    end
  end.

Definition del_value (s : state) (r : recv) (p : path) : state * option err :=
  match locate s r p with
  | Err e => (s, Some e)
  | Ok (c, k) =>
    match get_at s c k with
    | Err e => (s, Some e)
    | Ok _ =>
      match c with
      | RRoot => (mkState (heap s) (mdel k (root s)), None)
      | RObj i => (upd_state s i (fun n => with_members (mdel k (nmembers n)) n), None)
      end
    end
  end.

(* Alias.resolve_target / _resolve_target (single link; a link to another alias is out of scope) *)
Definition resolve (s : state) (a : nat) : state * option err :=
  match getn s a with
  | None => (s, Some EBad)
  | Some n =>
    if negb (is_ali (nkind n)) then (s, Some EBad)
    else match has_mc s a with
         | Err e => (s, Some e)
         | Ok _ =>
           (* target_path is a string: the one-element path [""] is the empty string, which _get_parts rejects *)
           if path_eqb (ntpath n) [""] then (s, Some EValue) else
           match get s RRoot (ntpath n) with
           | Err EMissing => (s, Some EUnres)
           | Err e => (s, Some e)
           | Ok x =>
             if Nat.eqb x a then (s, Some ECyclic)
             else match kind_of s x with
                  | None => (s, Some EBad)
                  | Some kx =>
                    if is_ali kx then (s, Some EScope)
                    else
                      let s1 := upd_state s a (with_target (Some x) (ntpath n)) in
                      match path_of s a with
                      | POk ap => (add_backref s1 x ap a, None)
                      | PAttr => (s1, Some EMissing)
                      | PFuel => (s1, Some EFuel)
                      end
                  end
           end
         end
  end.

Inductive tgt := TNone | TStr (p : path) | TObj (i : nat).

Definition fresh (n : name) (k : kind) (t : option nat) (tp : path) : node := mkNode n k None [] t tp [] false.

(* the constructors Module(name) / Class(name) / Function(name) / Attribute(name) / Alias(name, target) *)
Definition alloc (s : state) (k : kind) (n : name) (t : tgt) : state * option err :=
  match k, t with
  | KAli, TStr p => (mkState (heap s ++ [fresh n KAli None p]) (root s), None)
  | KAli, TObj x =>
    match kind_of s x with
    | None => (s, Some EBad)
    | Some kx =>
      if is_ali kx then (s, Some EScope)
      else match path_of s x with
           | POk p => (mkState (heap s ++ [fresh n KAli (Some x) p]) (root s), None)
           | PAttr => (s, Some EMissing)
           | PFuel => (s, Some EFuel)
           end
    end
  | KAli, TNone => (s, Some EBad)
  | _, TNone => (mkState (heap s ++ [fresh n k None []]) (root s), None)
  | _, _ => (s, Some EBad)
  end.

Inductive op :=
| OAlloc (k : kind) (n : name) (t : tgt)                            (* build a detached object *)
| OSet (a : api) (r : recv) (p : path) (v : nat)                    (* r.set_member(p, v) / r[p] = v with an existing object *)
| ONew (a : api) (r : recv) (p : path) (k : kind) (t : tgt)         (* the same with a fresh object named after the key *)
| ODel (a : api) (r : recv) (p : path)
| OResolve (a : nat)
| OSetTarget (a v : nat).

Definition recv_exists (s : state) (r : recv) : bool :=
  match r with RRoot => true | RObj i => Nat.ltb i (List.length (heap s)) end.

Definition step (s : state) (o : op) : state * option err :=
  match o with
  | OAlloc k n t => alloc s k n t
  | OSet a r p v => set_value s a r p v
  | ONew a r p k t =>
    if negb (recv_exists s r) then (s, Some EBad)        (* the receiver must exist before the object is built *)
    else match alloc s k (last p "") t with
         | (s1, Some e) => (s1, Some e)
         | (s1, None) => set_value s1 a r p (List.length (heap s))
         end
  | ODel _ r p => del_value s r p
  | OResolve a => resolve s a
  | OSetTarget a v => match set_target s a v with Ok s' => (s', None) | Err e => (s, Some e) end
  end.

Definition run (s : state) (ops : list op) : state := fold_left (fun st o => fst (step st o)) ops s.

(* ---- the discipline the invariants need:
   (1) objects enter the tree fresh and under their own name (ONew, never OAlloc), or they are aliases -- or objects
       without members (a function, an attribute, an emptied class) -- that are inserted AGAIN after they were deleted
       or replaced (OSet), under their own name, provided nothing of them is left behind: no container lists them, no
       aliases dictionary mentions them (their back-reference was overwritten, or they were never resolved), no alias
       points at them, no former member still names them as parent;
   (2) the collection holds no alias directly;
   (3) every object an operation is applied to (receiver, alias operand) is in the tree at that moment,
       i.e. it is what the collection returns for the object's own path. *)
Definition live (s : state) (i : nat) : bool :=
  match path_of s i with
  | POk p => match get s RRoot p with Ok x => Nat.eqb x i | Err _ => false end
  | _ => false
  end.

Definition recv_live (s : state) (r : recv) : bool :=
  match r with RRoot => true | RObj i => live s i end.

Definition mentions (v : nat) (ms : list (name * nat)) : bool := existsb (fun kx => Nat.eqb (snd kx) v) ms.
Definition opt_is (v : nat) (o : option nat) : bool := match o with Some x => Nat.eqb x v | None => false end.

(* v is referred to by nothing: not a member of the collection or of any object (attached or not), not a value of any
   aliases dictionary, nobody's parent, nobody's target *)
Definition loose (s : state) (v : nat) : bool :=
  negb (mentions v (root s)) &&
  forallb (fun n => negb (mentions v (nmembers n)) && negb (existsb (fun pa => Nat.eqb (snd pa) v) (naliases n)) &&
                    negb (opt_is v (nparent n)) && negb (opt_is v (ntarget n))) (heap s).

Definition reattach_ok (s : state) (r : recv) (p : path) (v : nat) : bool :=
  match getn s v, r, p with
  | None, _, _ => false
  | _, RRoot, [_] => false
  | Some vn, _, _ => (is_ali (nkind vn) || match ntarget vn with None => true | Some _ => false end) &&
                     (match nmembers vn with [] => true | _ :: _ => false end) && loose s v &&
                     String.eqb (last p "") (nname vn) && recv_live s r
  end.

Definition top_down (s : state) (o : op) : bool :=
  match o with
  | OAlloc _ _ _ => false
  | OSet _ r p v => reattach_ok s r p v
  | ONew _ RRoot [_] KAli _ => false
  | ONew _ r _ _ _ => recv_live s r
  | ODel _ r _ => recv_live s r
  | OResolve a => live s a
  | OSetTarget a _ => live s a
  end.

Fixpoint all_top_down (s : state) (ops : list op) : bool :=
  match ops with
  | [] => true
  | o :: r => top_down s o && all_top_down (fst (step s o)) r
  end.

(* KnownGap_1: somewhere the history leaves the discipline (builds a subtree away from the tree and attaches it
   afterwards, re-inserts an object of which something is left behind, or operates on an object that is no longer in
   the tree) *)
Definition known_gap (ops : list op) : bool := negb (all_top_down init ops).

End Flag.

(* ---- _get_parts on a dotted string *)
Definition dot : ascii := "."%char.

Fixpoint split_dot_aux (s : string) (cur : string -> string) : list string :=
  match s with
  | EmptyString => [cur EmptyString]
  | String c r => if Ascii.eqb c dot then cur EmptyString :: split_dot_aux r (fun x => x)
                  else split_dot_aux r (fun x => cur (String c x))
  end.
Definition split_dot (s : string) : list string := split_dot_aux s (fun x => x).

Fixpoint join_dot (l : list string) : string :=
  match l with
  | [] => EmptyString
  | [x] => x
  | x :: r => x ++ String dot (join_dot r)
  end.

Inductive key := KStr (s : string) | KSeq (l : list string).
Definition get_parts (k : key) : res path :=
  match k with
  | KStr EmptyString => Err EValue
  | KStr s => Ok (split_dot s)
  | KSeq [] => Err EValue
  | KSeq l => Ok l
  end.

(* ---- the reference dictionary (specification side): absolute path -> object *)
Fixpoint is_prefix (p q : path) : bool :=
  match p, q with
  | [], _ => true
  | a :: p', b :: q' => String.eqb a b && is_prefix p' q'
  | _ :: _, [] => false
  end.

Definition dict := path -> option nat.
Definition dict_of (s : state) : dict := fun q => match get s RRoot q with Ok x => Some x | Err _ => None end.
Definition dict_set (P : path) (v : nat) (d : dict) : dict :=
  fun q => if path_eqb q P then Some v else if is_prefix P q then None else d q.
Definition dict_del (P : path) (d : dict) : dict := fun q => if is_prefix P q then None else d q.

(* ---- s-expression codecs *)
Definition dec_kind (s : sexp) : option kind :=
  match s with
  | SStr "M" => Some KMod | SStr "C" => Some KCls | SStr "F" => Some KFun | SStr "A" => Some KAttr | SStr "L" => Some KAli
  | _ => None
  end.
Definition enc_kind (k : kind) : sexp :=
  SStr (match k with KMod => "M" | KCls => "C" | KFun => "F" | KAttr => "A" | KAli => "L" end).

Definition dec_path (s : sexp) : option path := as_list_of as_str s.
Definition enc_path (p : path) : sexp := SList (map SStr p).

Definition dec_api (s : sexp) : option api :=
  match as_bool s with Some false => Some Producer | Some true => Some Consumer | None => None end.
Definition dec_recv (s : sexp) : option recv :=
  match s with
  | SList [] => Some RRoot
  | SList [i] => match as_nat i with Some n => Some (RObj n) | None => None end
  | _ => None
  end.
Definition dec_tgt (s : sexp) : option tgt :=
  match s with
  | SList [] => Some TNone
  | SList [SStr "s"; p] => match dec_path p with Some q => Some (TStr q) | None => None end
  | SList [SStr "o"; i] => match as_nat i with Some n => Some (TObj n) | None => None end
  | _ => None
  end.

Definition dec_op (s : sexp) : option op :=
  match s with
  | SList [SStr "alloc"; k; n; t] =>
      do k' <- dec_kind k; do n' <- as_str n; do t' <- dec_tgt t; Some (OAlloc k' n' t')
  | SList [SStr "set"; a; r; p; v] =>
      do a' <- dec_api a; do r' <- dec_recv r; do p' <- dec_path p; do v' <- as_nat v; Some (OSet a' r' p' v')
  | SList [SStr "new"; a; r; p; k; t] =>
      do a' <- dec_api a; do r' <- dec_recv r; do p' <- dec_path p; do k' <- dec_kind k; do t' <- dec_tgt t;
      Some (ONew a' r' p' k' t')
  | SList [SStr "del"; a; r; p] =>
      do a' <- dec_api a; do r' <- dec_recv r; do p' <- dec_path p; Some (ODel a' r' p')
  | SList [SStr "resolve"; a] => do a' <- as_nat a; Some (OResolve a')
  | SList [SStr "settarget"; a; v] => do a' <- as_nat a; do v' <- as_nat v; Some (OSetTarget a' v')
  | _ => None
  end.

Definition enc_err (e : option err) : sexp :=
  SStr (match e with
        | None => "ok" | Some EMissing => "missing" | Some EValue => "value" | Some ECyclic => "cyclic"
        | Some EUnres => "unresolved" | Some EScope => "scope" | Some EFuel => "fuel" | Some EBad => "bad"
        end).

Definition enc_pres (p : pres) : sexp :=
  match p with POk q => SList [SStr "ok"; enc_path q] | PAttr => SList [SStr "attr"] | PFuel => SList [SStr "fuel"] end.

Definition enc_node (s : state) (i : nat) (n : node) : sexp :=
  SList [ SStr (nname n); enc_kind (nkind n); of_opt of_nat (nparent n);
          SList (map (fun '(k, x) => SList [SStr k; of_nat x]) (nmembers n));
          of_opt of_nat (ntarget n); enc_path (ntpath n);
          SList (map (fun '(p, x) => SList [enc_path p; of_nat x]) (naliases n));
          of_bool (match has_mc s i with Ok _ => true | Err _ => false end);
          enc_pres (path_of s i) ].

Fixpoint enc_nodes (s : state) (i : nat) (l : list node) : list sexp :=
  match l with [] => [] | n :: r => enc_node s i n :: enc_nodes s (S i) r end.

Definition enc_state (s : state) : sexp :=
  SList [ SList (enc_nodes s 0 (heap s)); SList (map (fun '(k, x) => SList [SStr k; of_nat x]) (root s)) ].

(* after every operation: outcome, whether the operation is top-down, the whole state *)
Fixpoint trace (s : state) (ops : list op) : list sexp :=
  match ops with
  | [] => []
  | o :: r => let '(s', e) := step attach_before_retarget s o in
              SList [enc_err e; of_bool (top_down s o); enc_state s'] :: trace s' r
  end.

(* outcomes of every step, state only at the end *)
Fixpoint outcomes (s : state) (ops : list op) : list sexp * state :=
  match ops with
  | [] => ([], s)
  | o :: r => let '(s', e) := step attach_before_retarget s o in
              let '(l, sf) := outcomes s' r in (enc_err e :: l, sf)
  end.

Definition dec_key (s : sexp) : option key :=
  match s with
  | SList [SStr "str"; SStr x] => Some (KStr x)
  | SList [SStr "seq"; l] => match as_list_of as_str l with Some q => Some (KSeq q) | None => None end
  | _ => None
  end.

Definition run_C16 (s : sexp) : sexp :=
  match s with
  | SList [SStr "trace"; ops] =>
      match as_list_of dec_op ops with Some l => SList (trace init l) | None => bad_input end
  | SList [SStr "final"; ops] =>
      match as_list_of dec_op ops with
      | Some l => let '(es, sf) := outcomes init l in
                  SList [SList es; enc_state sf; of_bool (known_gap attach_before_retarget l)]
      | None => bad_input end
  | SList [SStr "parts"; k] =>
      match dec_key k with
      | Some k' => match get_parts k' with Ok p => SList [SStr "ok"; enc_path p] | Err e => SList [enc_err (Some e)] end
      | None => bad_input end
  | _ => bad_input
  end.
