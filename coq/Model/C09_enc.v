(* C09 -- model of `as_dict(full=True)` + JSONEncoder for the object skeleton (models.py, docstrings/models.py,
   encoders.py), the shape grammar of its output, sexp codecs and run_C09.
   The published schema (schema_root, schema_defs) and the enumeration values come from Gen/C09_schema.v, which is
   regenerated from /repo/docs/schema.json and /repo/src/_griffe/enumerations.py on every run.
   Executable definitions only. *)
From Coq Require Import List ZArith String Ascii Bool Arith.
From Verif Require Import Lib.Sexp Model.C09_json Gen.C09_schema Gen.C09_exprs Model.C09_expr.
Import ListNotations.
Open Scope string_scope.
Open Scope list_scope.
Open Scope nat_scope.

(* ---------- the object tree as far as serialisation looks at it ---------- *)

(* `str | Expr | None` fields. An expression is serialised by expressions._expr_as_dict into an object
   (the class's dataclass fields, then `cls`): Model/C09_expr.v. *)
Inductive aval :=
| ANone | AStr (s : string) | AExpr (cls : string) (vals : list fval)
(* what only the API lets in (the inspector did until the repair 5db8f3a of finding C09-F8): another JSON-serialisable
   Python value, or an object json has no rule for *)
| ARaw (j : json) | AObject.

Record decorator := mkDeco { d_value : aval; d_lineno : option Z; d_endlineno : option Z }.

(* docstrings/models.py: DocstringElement (annotation, description), DocstringNamedElement (name, annotation, description,
   value when not None -- declared `str | None`, but a parameter's default expression ends up there too), an Examples pair
   (kind, text) *)
Inductive item :=
| IPlain (annotation : aval) (description : string)
| INamed (name : string) (annotation : aval) (description : string) (value : aval)
| IExample (kind text : string).

(* DocstringSection.as_dict: value is a string (text), a list (of elements / example pairs), or one element
   (deprecated, admonition: `self.value.as_dict()`). *)
Inductive secvalue := SVText (s : string) | SVItems (l : list item) | SVElem (annotation : aval) (description : string).
Record section := mkSection { sec_kind : string; sec_value : secvalue; sec_title : option string }.
Record docstring := mkDoc { ds_value : string; ds_lineno : option Z; ds_endlineno : option Z; ds_parsed : list section }.

Record parameter := mkParam { p_name : string; p_annotation : aval; p_kind : option string; p_default : aval; p_doc : option docstring }.

(* Object.filepath: Path | list[Path] (namespace packages) | None (builtin modules) *)
Inductive fpath := FPOne (s : string) | FPList (l : list string) | FPNone.

Inductive kindspec :=
| KModule
| KClass (bases : list aval) (decos : list decorator)
| KFunction (decos : list decorator) (params : list parameter) (returns : aval)
| KAttribute (value annotation : aval).

Inductive obj :=
| OAlias (name target_path path : string) (lineno endlineno : option Z)
| OObj (spec : kindspec) (name path : string) (filepath : fpath) (relf relpf : string)
       (lineno endlineno : option Z) (doc : option docstring) (labels : list string)
       (members : list (string * obj)).

(* ---------- the encoder ---------- *)

Definition enc_aval (a : aval) : json :=
  match a with
  | ANone => JNull | AStr s => JStr s | AExpr cls vals => enc_fval (FExpr cls vals)
  | ARaw j => j
  | AObject => JNull   (* never emitted: json.dumps raises TypeError, see `serialisable` *)
  end.

Definition enc_optz (o : option Z) : json := match o with Some z => JInt z | None => JNull end.
Definition enc_optstr (o : option string) : json := match o with Some s => JStr s | None => JNull end.

Definition optfield (k : string) (o : option json) : list (string * json) :=
  match o with Some v => [(k, v)] | None => [] end.

Definition enc_deco (d : decorator) : json :=
  JObj [("value", enc_aval (d_value d)); ("lineno", enc_optz (d_lineno d)); ("endlineno", enc_optz (d_endlineno d))].

Definition opt_aval (a : aval) : option json := match a with ANone => None | _ => Some (enc_aval a) end.

Definition enc_element (a : aval) (d : string) : list (string * json) :=
  [("annotation", enc_aval a); ("description", JStr d)].

Definition enc_item (i : item) : json :=
  match i with
  | IPlain a d => JObj (enc_element a d)
  | INamed n a d v => JObj ([("name", JStr n)] ++ enc_element a d ++ optfield "value" (opt_aval v))
  | IExample k t => JArr [JStr k; JStr t]
  end.

Definition enc_secvalue (v : secvalue) : json :=
  match v with SVText s => JStr s | SVItems l => JArr (map enc_item l) | SVElem a d => JObj (enc_element a d) end.

(* `if self.title:` -- None and "" are both omitted *)
Definition truthy_title (o : option string) : option json :=
  match o with Some "" => None | Some t => Some (JStr t) | None => None end.

Definition enc_section (s : section) : json :=
  JObj ([("kind", JStr (sec_kind s)); ("value", enc_secvalue (sec_value s))] ++ optfield "title" (truthy_title (sec_title s))).

Definition enc_docstring (d : docstring) : json :=
  JObj [("value", JStr (ds_value d)); ("lineno", enc_optz (ds_lineno d)); ("endlineno", enc_optz (ds_endlineno d));
        ("parsed", JArr (map enc_section (ds_parsed d)))].

Definition enc_param (p : parameter) : json :=
  JObj ([("name", JStr (p_name p)); ("annotation", enc_aval (p_annotation p)); ("kind", enc_optstr (p_kind p));
         ("default", enc_aval (p_default p))] ++ optfield "docstring" (option_map enc_docstring (p_doc p))).

Definition enc_fpath (f : fpath) : json :=
  match f with FPOne s => JStr s | FPList l => JArr (map JStr l) | FPNone => JNull end.

Definition kind_name (k : kindspec) : string :=
  match k with KModule => "module" | KClass _ _ => "class" | KFunction _ _ _ => "function" | KAttribute _ _ => "attribute" end.

Definition enc_spec (k : kindspec) : list (string * json) :=
  match k with
  | KModule => []
  | KClass bases decos => [("bases", JArr (map enc_aval bases)); ("decorators", JArr (map enc_deco decos))]
  | KFunction decos params returns =>
      [("decorators", JArr (map enc_deco decos)); ("parameters", JArr (map enc_param params)); ("returns", enc_aval returns)]
  | KAttribute value annotation => optfield "value" (opt_aval value) ++ optfield "annotation" (opt_aval annotation)
  end.

(* `if self.alias_lineno:` -- None and 0 are both omitted *)
Definition truthy_z (o : option Z) : option json :=
  match o with Some 0%Z => None | Some z => Some (JInt z) | None => None end.

Fixpoint enc_full (t : obj) : json :=
  match t with
  | OAlias name target path lineno endlineno =>
      JObj ([("kind", JStr "alias"); ("name", JStr name); ("target_path", JStr target); ("path", JStr path)]
            ++ optfield "lineno" (truthy_z lineno) ++ optfield "endlineno" (truthy_z endlineno))
  | OObj spec name path fp relf relpf lineno endlineno doc labels members =>
      JObj ([("kind", JStr (kind_name spec)); ("name", JStr name); ("path", JStr path); ("filepath", enc_fpath fp);
             ("relative_filepath", JStr relf); ("relative_package_filepath", JStr relpf)]
            ++ optfield "lineno" (option_map JInt lineno) ++ optfield "endlineno" (option_map JInt endlineno)
            ++ optfield "docstring" (option_map enc_docstring doc)
            ++ [("labels", JArr (map JStr labels));
                ("members", JObj (map (fun nm => (fst nm, enc_full (snd nm))) members))]
            ++ enc_spec spec)
  end.

(* ---------- which trees a load from disk can produce (domain of the theorems) ---------- *)

Definition aval_ok (a : aval) : bool :=
  match a with AExpr cls vals => fval_ok (FExpr cls vals) | ARaw _ | AObject => false | _ => true end.

Definition deco_ok (d : decorator) : bool := match d_lineno d with Some _ => true | None => false end && aval_ok (d_value d).

Definition item_matches (k : skind) (i : item) : bool :=
  match k, i with
  | SKPlain, IPlain a _ => aval_ok a
  | SKNamed, INamed _ a _ v => aval_ok a && aval_ok v
  | SKExamples, IExample _ _ => true
  | _, _ => false
  end.

Definition secvalue_matches (k : skind) (v : secvalue) : bool :=
  match k, v with
  | SKText, SVText _ => true
  | SKOne, SVElem a _ => aval_ok a
  | SKPlain, SVItems l | SKNamed, SVItems l | SKExamples, SVItems l => forallb (item_matches k) l
  | _, _ => false
  end.

(* the section's kind has a row in the table regenerated from docstrings/models.py and its value has that row's shape *)
Definition section_ok (s : section) : bool :=
  match lookup (sec_kind s) section_table with
  | Some k => secvalue_matches k (sec_value s)
  | None => false
  end.
Definition doc_ok (d : docstring) : bool := forallb section_ok (ds_parsed d).
Definition optdoc_ok (d : option docstring) : bool := match d with Some d => doc_ok d | None => true end.
Definition param_ok (p : parameter) : bool :=
  match p_kind p with Some k => str_in k enc_parameter_kinds | None => false end && optdoc_ok (p_doc p)
  && aval_ok (p_annotation p) && aval_ok (p_default p).
Definition spec_ok (k : kindspec) : bool :=
  match k with
  | KModule => true
  | KClass bases decos => forallb aval_ok bases && forallb deco_ok decos
  | KFunction decos params returns => forallb deco_ok decos && forallb param_ok params && aval_ok returns
  | KAttribute value annotation => aval_ok value && aval_ok annotation
  end.

(* loadable: decorators carry a line number, parameters a kind of the enumeration, sections a kind and a value shape of the
   section table, expressions the fields of their class (Gen/C09_exprs.v), and the module has a file path (builtin modules,
   filepath None, are not "loaded from files on disk"). *)
Fixpoint loadable (t : obj) : bool :=
  match t with
  | OAlias _ _ _ _ _ => true
  | OObj spec _ _ fp _ _ _ _ doc _ members =>
      spec_ok spec && match fp with FPNone => false | _ => true end && optdoc_ok doc
      && forallb (fun nm => loadable (snd nm)) members
  end.

(* json.dumps raises TypeError ("Object of type ... is not JSON serializable") when an object without encoding rule is
   reached; looked for where the inspector used to leave one: parameter defaults (until fix 5db8f3a), parameter / return /
   property annotations (until fix 4debb62) *)
Definition is_object (a : aval) : bool := match a with AObject => true | _ => false end.
Definition spec_has_object (k : kindspec) : bool :=
  match k with
  | KFunction _ params returns => existsb (fun p => is_object (p_annotation p) || is_object (p_default p)) params || is_object returns
  | KAttribute _ annotation => is_object annotation
  | _ => false
  end.
Fixpoint has_object (t : obj) : bool :=
  match t with
  | OAlias _ _ _ _ _ => false
  | OObj spec _ _ _ _ _ _ _ _ _ members => spec_has_object spec || existsb (fun nm => has_object (snd nm)) members
  end.

(* ---------- the shape grammar of encoder output ----------
   (the former known gaps C09-F1..F5 were repaired on the schema side; the grammar describes everything the encoder emits) *)

Definition sh_opt_int : shape := ShUnion [ShInt; ShNull].
Definition sh_annotation : shape := ShUnion [ShNull; ShStr; ShRef expr_nt].
Definition sh_lits (l : list string) : shape := ShUnion (map ShLit l).

Definition sh_plain : shape := ShObj [("annotation", (true, sh_annotation)); ("description", (true, ShStr))].
Definition sh_named : shape :=
  ShObj [("name", (true, ShStr)); ("annotation", (true, sh_annotation)); ("description", (true, ShStr));
         ("value", (false, ShUnion [ShStr; ShRef expr_nt]))].

Definition sh_secvalue (k : skind) : shape :=
  match k with
  | SKText => ShStr
  | SKPlain => ShArr sh_plain
  | SKNamed => ShArr sh_named
  | SKExamples => ShArr (ShArr ShStr)
  | SKOne => sh_plain
  end.

Definition sh_section_row (row : string * skind) : shape :=
  ShObj [("kind", (true, ShLit (fst row))); ("value", (true, sh_secvalue (snd row))); ("title", (false, ShStr))].

Definition sh_section : shape := ShUnion (map sh_section_row section_table).

Definition sh_docstring : shape :=
  ShObj [("value", (true, ShStr)); ("lineno", (true, sh_opt_int)); ("endlineno", (true, sh_opt_int));
         ("parsed", (true, ShArr sh_section))].

Definition sh_decorator : shape :=
  ShObj [("value", (true, sh_annotation)); ("lineno", (true, ShInt)); ("endlineno", (true, sh_opt_int))].

Definition sh_parameter : shape :=
  ShObj [("name", (true, ShStr)); ("annotation", (true, sh_annotation)); ("kind", (true, sh_lits enc_parameter_kinds));
         ("default", (true, sh_annotation)); ("docstring", (false, sh_docstring))].

Definition sh_common (kind : string) : list (string * (bool * shape)) :=
  [("kind", (true, ShLit kind)); ("name", (true, ShStr)); ("path", (true, ShStr));
   ("filepath", (true, ShUnion [ShStr; ShArr ShStr]));
   ("relative_filepath", (true, ShStr)); ("relative_package_filepath", (true, ShStr));
   ("lineno", (false, ShInt)); ("endlineno", (false, ShInt)); ("docstring", (false, sh_docstring));
   ("labels", (true, ShArr ShStr)); ("members", (true, ShMap (ShRef "object")))].

Definition sh_alias : shape :=
  ShObj [("kind", (true, ShLit "alias")); ("name", (true, ShStr)); ("target_path", (true, ShStr)); ("path", (true, ShStr));
         ("lineno", (false, ShInt)); ("endlineno", (false, ShInt))].

Definition sh_spec (k : string) : list (string * (bool * shape)) :=
  if String.eqb k "class" then [("bases", (true, ShArr sh_annotation)); ("decorators", (true, ShArr sh_decorator))]
  else if String.eqb k "function" then
    [("decorators", (true, ShArr sh_decorator)); ("parameters", (true, ShArr sh_parameter)); ("returns", (true, sh_annotation))]
  else if String.eqb k "attribute" then [("value", (false, sh_annotation)); ("annotation", (false, sh_annotation))]
  else [].

Definition sh_object (k : string) : shape := ShObj (sh_common k ++ sh_spec k).

Definition G_enc : grammar :=
  [("object", ShUnion [sh_alias; sh_object "module"; sh_object "class"; sh_object "function"; sh_object "attribute"]);
   (expr_nt, sh_expression)].

Definition root_nt : string := "object".
Definition incl_fuel : nat := 60.

(* the inclusion check of the grammar in the published schema *)
Definition grammar_in_schema : bool :=
  match lookup root_nt G_enc with
  | Some sh => incl G_enc schema_root schema_defs root_nt incl_fuel sh schema_root
  | None => false
  end.

Definition validates_doc (fuel : nat) (j : json) : option bool := validates schema_root schema_defs fuel schema_root j.
Definition doc_fuel (j : json) : nat := 16 * (json_depth j + 2).
Definition mem_fuel (j : json) : nat := 8 * (json_depth j + 2).

(* ---------- sexp codecs ---------- *)

(* json: null = ("n"), true = ("t"), false = ("f"), int = SInt, float = ("F" integral), string = SStr,
   array = ("a" x...), object = ("o" (k v)...) *)
Fixpoint json_of (s : sexp) : option json :=
  match s with
  | SInt z => Some (JInt z)
  | SStr x => Some (JStr x)
  | SList [SStr "n"] => Some JNull
  | SList [SStr "t"] => Some (JBool true)
  | SList [SStr "f"] => Some (JBool false)
  | SList [SStr "F"; SInt z] => Some (JFloat (negb (z =? 0)%Z))
  | SList (SStr "a" :: items) =>
      option_map JArr
        ((fix go (l : list sexp) : option (list json) :=
            match l with
            | [] => Some []
            | x :: r => match json_of x, go r with Some a, Some b => Some (a :: b) | _, _ => None end
            end) items)
  | SList (SStr "o" :: kvs) =>
      option_map JObj
        ((fix go (l : list sexp) : option (list (string * json)) :=
            match l with
            | [] => Some []
            | SList [SStr k; v] :: r => match json_of v, go r with Some a, Some b => Some ((k, a) :: b) | _, _ => None end
            | _ => None
            end) kvs)
  | _ => None
  end.

Fixpoint sexp_of_json (j : json) : sexp :=
  match j with
  | JNull => SList [SStr "n"]
  | JBool true => SList [SStr "t"]
  | JBool false => SList [SStr "f"]
  | JInt z => SInt z
  | JFloat b => SList [SStr "F"; of_bool b]
  | JStr s => SStr s
  | JArr l => SList (SStr "a" :: map sexp_of_json l)
  | JObj kvs => SList (SStr "o" :: map (fun kv => SList [SStr (fst kv); sexp_of_json (snd kv)]) kvs)
  end.

Definition as_optz (s : sexp) : option (option Z) := as_opt as_int s.
Definition as_optstr (s : sexp) : option (option string) := as_opt as_str s.

Definition as_jobj (s : sexp) : option (list (string * json)) :=
  match json_of s with Some (JObj f) => Some f | _ => None end.

Definition aval_of (s : sexp) : option aval :=
  match s with
  | SList [SStr "none"] => Some ANone
  | SList [SStr "str"; SStr x] => Some (AStr x)
  | SList [SStr "expr"; e] => match fval_of e with Some (FExpr cls vals) => Some (AExpr cls vals) | _ => None end
  | SList [SStr "raw"; j] => option_map ARaw (json_of j)
  | SList [SStr "object"] => Some AObject
  | _ => None
  end.

Definition deco_of (s : sexp) : option decorator :=
  match s with
  | SList [v; l; e] => do v' <- aval_of v; do l' <- as_optz l; do e' <- as_optz e; Some (mkDeco v' l' e')
  | _ => None
  end.

Definition item_of (s : sexp) : option item :=
  match s with
  | SList [SStr "plain"; a; SStr d] => do a' <- aval_of a; Some (IPlain a' d)
  | SList [SStr "named"; SStr n; a; SStr d; v] => do a' <- aval_of a; do v' <- aval_of v; Some (INamed n a' d v')
  | SList [SStr "example"; SStr k; SStr t] => Some (IExample k t)
  | _ => None
  end.

Definition secvalue_of (s : sexp) : option secvalue :=
  match s with
  | SList [SStr "text"; SStr x] => Some (SVText x)
  | SList [SStr "items"; l] => option_map SVItems (as_list_of item_of l)
  | SList [SStr "elem"; a; SStr d] => do a' <- aval_of a; Some (SVElem a' d)
  | _ => None
  end.

Definition section_of (s : sexp) : option section :=
  match s with
  | SList [SStr k; v; t] => do v' <- secvalue_of v; do t' <- as_optstr t; Some (mkSection k v' t')
  | _ => None
  end.

Definition docstring_of (s : sexp) : option docstring :=
  match s with
  | SList [SStr v; l; e; secs] =>
      do l' <- as_optz l; do e' <- as_optz e; do secs' <- as_list_of section_of secs; Some (mkDoc v l' e' secs')
  | _ => None
  end.

Definition param_of (s : sexp) : option parameter :=
  match s with
  | SList [SStr n; a; k; d; doc] =>
      do a' <- aval_of a; do k' <- as_optstr k; do d' <- aval_of d; do doc' <- as_opt docstring_of doc;
      Some (mkParam n a' k' d' doc')
  | _ => None
  end.

Definition fpath_of (s : sexp) : option fpath :=
  match s with
  | SList [SStr "one"; SStr x] => Some (FPOne x)
  | SList [SStr "list"; l] => option_map FPList (as_list_of as_str l)
  | SList [SStr "none"] => Some FPNone
  | _ => None
  end.

Definition spec_of (s : sexp) : option kindspec :=
  match s with
  | SList [SStr "module"] => Some KModule
  | SList [SStr "class"; b; d] => do b' <- as_list_of aval_of b; do d' <- as_list_of deco_of d; Some (KClass b' d')
  | SList [SStr "function"; d; p; r] =>
      do d' <- as_list_of deco_of d; do p' <- as_list_of param_of p; do r' <- aval_of r; Some (KFunction d' p' r')
  | SList [SStr "attribute"; v; a] => do v' <- aval_of v; do a' <- aval_of a; Some (KAttribute v' a')
  | _ => None
  end.

Fixpoint obj_of (s : sexp) : option obj :=
  match s with
  | SList [SStr "alias"; SStr name; SStr target; SStr path; l; e] =>
      do l' <- as_optz l; do e' <- as_optz e; Some (OAlias name target path l' e')
  | SList [SStr "obj"; spec; SStr name; SStr path; fp; SStr relf; SStr relpf; l; e; doc; labels; SList members] =>
      do spec' <- spec_of spec; do fp' <- fpath_of fp; do l' <- as_optz l; do e' <- as_optz e;
      do doc' <- as_opt docstring_of doc; do labels' <- as_list_of as_str labels;
      do members' <- (fix go (l : list sexp) : option (list (string * obj)) :=
                        match l with
                        | [] => Some []
                        | SList [SStr n; m] :: r => match obj_of m, go r with Some a, Some b => Some ((n, a) :: b) | _, _ => None end
                        | _ => None
                        end) members;
      Some (OObj spec' name path fp' relf relpf l' e' doc' labels' members')
  | _ => None
  end.

Definition of_verdict (v : option bool) : sexp :=
  match v with Some true => SInt 1 | Some false => SInt 0 | None => SInt (-1) end.

(* run_C09:
   ("validate" doc)  -> (verdict)                       model of the schema validator on one document
   ("member" doc)    -> (in G_enc)                       grammar membership
   ("enc" tree)      -> (json loadable)
   ("incl")          -> (grammar_in_schema) *)
Definition run_C09 (s : sexp) : sexp :=
  match s with
  | SList [SStr "validate"; d] =>
      match json_of d with
      | Some j => SList [of_verdict (validates_doc (doc_fuel j) j)]
      | None => bad_input
      end
  | SList [SStr "member"; d] =>
      match json_of d with
      | Some j => SList [of_bool (mem G_enc (mem_fuel j) (ShRef root_nt) j)]
      | None => bad_input
      end
  | SList [SStr "enc"; t] =>
      match obj_of t with
      | Some t' => SList [sexp_of_json (enc_full t'); of_bool (loadable t')]
      | None => bad_input
      end
  | SList [SStr "incl"] => SList [of_bool grammar_in_schema]
  | _ => bad_input
  end.
