(* C14 model: finder.py (find_package, iter_submodules, submodules, .pth extension of the search paths) and the
   loader's submodule attachment (loader.py: _load_submodule, _get_or_create_parent_module, mixins.set_member merge),
   in static mode (allow_inspection=False unless the [insp] flag is set), plus a model of the authority:
   CPython's PathFinder/FileFinder precedence, pkgutil.iter_modules/walk_packages and site.addsitedir.
   Executable definitions only. *)
From Coq Require Import List ZArith String Ascii Bool Arith.
From Verif Require Import Lib.Sexp Gen.C14_tables.
Import ListNotations.
Open Scope string_scope.
Open Scope list_scope.


(* ------------------------------------------------------------------------------------------------------------- *)
(* File system.  A directory is the list of its entries IN THE ORDER THE OPERATING SYSTEM LISTS THEM.
   A file carries what the finder reads from its text: [ns] = the text declares a pkgutil/pkg_resources style
   namespace (only looked at for __init__.py); [pth] = for a *.pth file its usable lines, each (cwd-only?, id of the
   existing root directory the line designates): cwd-only = the line is relative and exists only relative to the
   current directory, not relative to the directory of the .pth file (Griffe falls back to the cwd, site does not);
   absolute lines and lines relative to the .pth file's directory have cwd-only = false.
   Comment/blank/non-existing lines are dropped by the abstraction. *)
Inductive node := File (ns : bool) (pth : list (bool * nat)) | Dir (es : list (string * node)).
Definition listing := list (string * node).
Definition path := (nat * list string)%type.          (* root directory id, components below it *)
Definition universe := list (nat * listing).

Inductive res (A : Type) := Ok (a : A) | Err (e : string).
Arguments Ok {A} a. Arguments Err {A} e.

(* ---- strings ---- *)
Definition is_dot (c : ascii) : bool := Ascii.eqb c "."%char.

(* split at the last dot: (before, from the dot on) *)
Fixpoint split_last_dot (s : string) : option (string * string) :=
  match s with
  | EmptyString => None
  | String c r =>
      match split_last_dot r with
      | Some (a, b) => Some (String c a, b)
      | None => if is_dot c then Some (EmptyString, s) else None
      end
  end.

Fixpoint all_dots (s : string) : bool :=
  match s with EmptyString => true | String c r => is_dot c && all_dots r end.

(* os.path.splitext(name)[1]: leading dots do not start an extension *)
Definition os_ext (s : string) : string :=
  match split_last_dot s with
  | Some (a, b) => if all_dots a then "" else b
  | None => ""
  end.

(* pathlib PurePath.suffix / .stem (3.12): i = rfind("."), 0 < i < len-1 *)
Definition pl_split (s : string) : string * string :=
  match split_last_dot s with
  | Some (a, b) => if negb (a =? "") && (2 <=? String.length b)%nat then (a, b) else (s, "")
  | None => (s, "")
  end.
Definition pl_suffix (s : string) : string := snd (pl_split s).
Definition pl_stem (s : string) : string := fst (pl_split s).

(* s.split(".", 1)[0] *)
Fixpoint before_first_dot (s : string) : string :=
  match s with
  | EmptyString => EmptyString
  | String c r => if is_dot c then EmptyString else String c (before_first_dot r)
  end.

Fixpoint has_dot (s : string) : bool :=
  match s with EmptyString => false | String c r => is_dot c || has_dot r end.

Definition mem_str (x : string) (l : list string) : bool := existsb (String.eqb x) l.

Fixpoint lstr_eqb (a b : list string) : bool :=
  match a, b with
  | [], [] => true
  | x :: a', y :: b' => (x =? y) && lstr_eqb a' b'
  | _, _ => false
  end.
Definition path_eqb (p q : path) : bool := (fst p =? fst q)%nat && lstr_eqb (snd p) (snd q).
Definition mem_lstr (x : list string) (l : list (list string)) : bool := existsb (lstr_eqb x) l.
Definition mem_path (x : path) (l : list path) : bool := existsb (path_eqb x) l.
Definition mem_nat (x : nat) (l : list nat) : bool := existsb (Nat.eqb x) l.

(* s ends with suf: Some (s without suf) *)
Fixpoint strip_suffix (s suf : string) : option string :=
  if s =? suf then Some EmptyString else
  match s with
  | EmptyString => None
  | String c r => match strip_suffix r suf with Some a => Some (String c a) | None => None end
  end.

(* ---- navigation ---- *)
Fixpoint lookup_entry (n : string) (l : listing) : option node :=
  match l with
  | [] => None
  | (k, v) :: r => if k =? n then Some v else lookup_entry n r
  end.

Fixpoint lookup_nat {A} (n : nat) (l : list (nat * A)) : option A :=
  match l with
  | [] => None
  | (k, v) :: r => if (k =? n)%nat then Some v else lookup_nat n r
  end.

Definition root (U : universe) (i : nat) : listing :=
  match lookup_nat i U with Some l => l | None => [] end.

Fixpoint get_node (l : listing) (comps : list string) : option node :=
  match comps with
  | [] => Some (Dir l)
  | c :: r =>
      match lookup_entry c l with
      | Some (Dir l') => get_node l' r
      | Some f => match r with [] => Some f | _ => None end
      | None => None
      end
  end.

Definition node_at (U : universe) (p : path) : option node := get_node (root U (fst p)) (snd p).
Definition listing_at (U : universe) (p : path) : option listing :=
  match node_at U p with Some (Dir l) => Some l | _ => None end.
Definition is_file (n : node) : bool := match n with File _ _ => true | Dir _ => false end.
Definition has_entry (n : string) (l : listing) : bool := match lookup_entry n l with Some _ => true | None => false end.
Definition has_file (n : string) (l : listing) : bool := match lookup_entry n l with Some (File _ _) => true | _ => false end.
Definition sub (p : path) (c : string) : path := (fst p, snd p ++ [c]).

Definition path_suffix (p : path) : string := pl_suffix (last (snd p) "").

Definition is_init_name (fn : string) : bool := before_first_dot fn =? "__init__".


(* ------------------------------------------------------------------------------------------------------------- *)
(* finder.py *)
(* regenerated from ModuleFinder.accepted_py_module_extensions on every run (Gen/C14_tables.v) *)
Definition accepted_exts : list string := gen_accepted_exts.
Definition accepted (name : string) : bool := mem_str (os_ext name) accepted_exts.

(* _filter_py_modules: os.walk(top-down): a directory's non-directory entries first (listing order), then each
   sub-directory (listing order) except __pycache__.  Results are paths relative to the starting directory. *)
Definition walk_files (pre : list string) (es : listing) : list (list string) :=
  flat_map (fun e => if is_file (snd e) && accepted (fst e) then [pre ++ [fst e]] else []) es.

Fixpoint walk (pre : list string) (n : node) : list (list string) :=
  match n with
  | File _ _ => []
  | Dir es =>
      walk_files pre es ++
      flat_map (fun e => let '(nm, x) := e in
                         match x with
                         | Dir _ => if nm =? "__pycache__" then [] else walk (pre ++ [nm]) x
                         | File _ _ => []
                         end) es
  end.

(* what iter_submodules does with one relative file path *)
Inductive yield := YSkip | YInit (parts : list string) | YMod (parts : list string).

Definition name_to_yield (rel : list string) : yield :=
  let fn := last rel "" in
  let par := removelast rel in
  let py := (pl_suffix fn =? ".py") || (pl_suffix fn =? ".pyi") in       (* a stubs file is named like its module *)
  let stem := if py then pl_stem fn else before_first_dot (pl_stem fn) in
  if stem =? "__init__" then (if (List.length rel =? 1)%nat then YSkip else YInit par)
  else if py then YMod (par ++ [stem])
  else if stem =? "" then YSkip                      (* a dot-file such as .x.pyi names no module: skipped *)
  else YMod (par ++ [stem]).

Record entry := mkE { e_parts : list string; e_base : path; e_rel : list string }.
Definition e_abs (e : entry) : path := (fst (e_base e), snd (e_base e) ++ e_rel e).

(* one portion; [skip] is the snapshot of [seen] taken when the portion starts *)
Fixpoint iter_files (base : path) (skip : list (list string)) (files : list (list string))
         (seen : list (list string)) : res (list entry * list (list string)) :=
  match files with
  | [] => Ok ([], seen)
  | rel :: r =>
      if mem_lstr (removelast rel) skip then iter_files base skip r seen else
      match name_to_yield rel with
      | YSkip => iter_files base skip r seen
      | YInit parts =>
          match iter_files base skip r (seen ++ [removelast rel]) with
          | Ok (es, s) => Ok (mkE parts base rel :: es, s)
          | Err e => Err e
          end
      | YMod parts =>
          match iter_files base skip r seen with
          | Ok (es, s) => Ok (mkE parts base rel :: es, s)
          | Err e => Err e
          end
      end
  end.

Definition portion_files (U : universe) (d : path) : list (list string) :=
  match node_at U d with Some n => walk [] n | None => [] end.

(* iter_submodules(path): an __init__ file stands for its directory; any other module-looking name yields nothing *)
Definition start_dir (p : path) : option path :=
  let fn := last (snd p) "" in
  if pl_stem fn =? "__init__" then Some (fst p, removelast (snd p))
  else if mem_str (pl_suffix fn) accepted_exts then None
  else Some p.

(* iter_submodules(one portion), seen = None: nothing is skipped *)
Definition iter_one (U : universe) (d : path) : list entry :=
  match start_dir d with
  | None => []
  | Some d' => match iter_files d' [] (portion_files U d') [] with Ok (es, _) => es | Err _ => [] end
  end.

(* iter_submodules(list of portions).  All portions are scanned first; then, top-down, the first portion that has an
   __init__ module (not a stub) in a folder that no other portion's regular package shadows becomes the PROVIDER of
   that folder; a file is yielded only if every folder it is in is provided by its own portion or by none; and of
   several source files of one name and suffix in different portions only the first portion's is yielded. *)
Definition is_init_entry (e : entry) : bool := is_init_name (last (e_rel e) "").
Definition provs := list (list string * path).

Fixpoint prov_get (P : provs) (f : list string) : option path :=
  match P with
  | [] => None
  | (k, d) :: r => if lstr_eqb k f then Some d else prov_get r f
  end.

Definition shadowed (P : provs) (d : path) (folders : list string) : bool :=
  existsb (fun j => match prov_get P (firstn j folders) with Some d' => negb (path_eqb d' d) | None => false end)
          (seq 1 (List.length folders)).

Definition prov_step (P : provs) (e : entry) : provs :=
  if is_init_entry e && negb (path_suffix (e_abs e) =? ".pyi") && negb (shadowed P (e_base e) (removelast (e_parts e)))
  then match prov_get P (e_parts e) with Some _ => P | None => P ++ [(e_parts e, e_base e)] end
  else P.

Definition e_folders (e : entry) : list string := if is_init_entry e then e_parts e else removelast (e_parts e).

Definition found_t := list ((list string * string) * path).
Fixpoint found_get (F : found_t) (k : list string * string) : option path :=
  match F with
  | [] => None
  | ((p, s), d) :: r => if lstr_eqb p (fst k) && (s =? snd k) then Some d else found_get r k
  end.

Fixpoint first_wins (P : provs) (subs : list entry) (F : found_t) : list entry :=
  match subs with
  | [] => []
  | e :: r =>
      if shadowed P (e_base e) (e_folders e) then first_wins P r F else
      let suf := path_suffix (e_abs e) in
      if negb ((suf =? ".py") || (suf =? ".pyi")) then e :: first_wins P r F else
      match found_get F (e_parts e, suf) with
      | Some d => if path_eqb d (e_base e) then e :: first_wins P r F else first_wins P r F
      | None => e :: first_wins P r (F ++ [((e_parts e, suf), e_base e)])
      end
  end.

(* iter_submodules(path of a regular module): seen is None, nothing is skipped *)
Definition iter_regular (U : universe) (p : path) : res (list entry) :=
  match start_dir p with
  | None => Ok []
  | Some d =>
      match iter_files d [] (portion_files U d) [] with
      | Ok (es, _) => Ok es
      | Err e => Err e
      end
  end.

(* submodules(): sorted(..., key=depth), stable *)
Definition depth (e : entry) : nat := List.length (e_parts e).
Definition max_depth (l : list entry) : nat := fold_right (fun e m => Nat.max (depth e) m) 0 l.
Definition depth_sort (l : list entry) : list entry :=
  flat_map (fun d => filter (fun e => (depth e =? d)%nat) l) (seq 0 (S (max_depth l))).

Definition all_subs (U : universe) (ds : list path) : list entry := flat_map (iter_one U) ds.
(* sorted(submodules, key=depth) is stable: for one folder the first portion wins *)
Definition providers_of (subs : list entry) : provs := fold_left prov_step (depth_sort subs) [].
Definition iter_portions (U : universe) (ds : list path) : list entry :=
  let subs := all_subs U ds in first_wins (providers_of subs) subs [].

(* find_package *)
Inductive found := FPkg (p : path) (stubs : option path) | FNs (dirs : list path) | FNone.

Fixpoint g_find (U : universe) (name : string) (paths : list nat) (nsacc : list path) : found :=
  match paths with
  | [] => match nsacc with [] => FNone | _ => FNs nsacc end
  | i :: r =>
      let L := root U i in
      let second (acc : list path) :=
          if has_entry (name ++ ".py")%string L
          then FPkg (i, [(name ++ ".py")%string]) (if has_entry (name ++ ".pyi")%string L then Some (i, [(name ++ ".pyi")%string]) else None)
          else g_find U name r acc in
      match lookup_entry name L with
      | None => second nsacc
      | Some nd =>
          let inner := match nd with Dir l => l | File _ _ => [] end in
          let regular_init := match lookup_entry "__init__.py" inner with
                              | Some (File ns _) => negb ns
                              | Some (Dir _) => true
                              | None => false end in
          if regular_init
          then FPkg (i, [name; "__init__.py"]) (if has_entry "__init__.pyi" inner then Some (i, [name; "__init__.pyi"]) else None)
          else if has_entry "__init__.pyi" inner then FPkg (i, [name; "__init__.pyi"]) None
          else second (nsacc ++ [(i, [name])])
      end
  end.

(* sorted(os.listdir()) *)
Fixpoint insert_sorted (x : string * node) (l : listing) : listing :=
  match l with
  | [] => [x]
  | y :: r => if String.leb (fst x) (fst y) then x :: l else y :: insert_sorted x r
  end.
Definition sort_listing (l : listing) : listing := fold_right insert_sorted [] l.

(* _extend_from_pth_files: the loop runs over a snapshot of the search paths (directories added by a .pth file are not
   scanned for .pth files); every usable line of a .pth file -- absolute, or relative to the directory of the .pth
   file -- designates a root directory. *)
Definition pth_targets_griffe (L : listing) : list nat :=
  flat_map (fun e : string * node => match snd e with
                     | File _ lines => if pl_suffix (fst e) =? ".pth" then map snd lines else []
                     | Dir _ => [] end) (sort_listing L).       (* sorted(contents), as site does *)

Fixpoint add_new (xs : list nat) (known : list nat) : list nat :=
  match xs with
  | [] => []
  | x :: r => if mem_nat x known then add_new r known else x :: add_new r (known ++ [x])
  end.

Definition g_paths (U : universe) (sps : list nat) : list nat :=
  let s := add_new sps [] in
  fold_left (fun acc p => acc ++ add_new (pth_targets_griffe (root U p)) acc) s s.

(* ------------------------------------------------------------------------------------------------------------- *)
(* loader.py: the tree is kept as a map from the dotted path below the top module ([] = the top module) *)
Inductive minfo := MFile (p : path) | MNs (ps : list path).
Definition mstate := list (list string * minfo).

Fixpoint lookup_m (k : list string) (M : mstate) : option minfo :=
  match M with
  | [] => None
  | (k', v) :: r => if lstr_eqb k' k then Some v else lookup_m k r
  end.

Fixpoint set_m (k : list string) (v : minfo) (M : mstate) : mstate :=
  match M with
  | [] => [(k, v)]
  | (k', w) :: r => if lstr_eqb k' k then (k', v) :: r else (k', w) :: set_m k v r
  end.

(* _get_or_create_parent_module; returns the state (side effects persist) and the parent key, None = UnimportableModuleError *)
Fixpoint goc (M : mstate) (cur : list string) (todo : list string) (k : nat) (mfp : nat -> path)
  : mstate * option (list string) :=
  match todo with
  | [] => (M, Some cur)
  | part :: r =>
      let key := cur ++ [part] in
      match lookup_m key M with
      | Some (MNs ps) =>
          goc (if mem_path (mfp k) ps then M else set_m key (MNs (ps ++ [mfp k])) M) key r (S k) mfp
      | Some (MFile f) =>
          (* a plain module (bar.py next to bar/) is not a package: UnimportableModuleError *)
          if is_init_name (last (snd f) "") then goc M key r (S k) mfp else (M, None)
      | None =>
          match lookup_m cur M with
          | Some (MNs _) => goc (set_m key (MNs [mfp k]) M) key r (S k) mfp
          | _ => (M, None)
          end
      end
  end.

(* mixins.set_member + merger.merge_stubs: which module object ends up under the name *)
Definition set_member (M : mstate) (key : list string) (newp : path) : mstate :=
  match lookup_m key M with
  | Some (MFile oldp) =>
      if path_eqb oldp newp then set_m key (MFile newp) M
      else if path_suffix oldp =? ".pyi" then set_m key (MFile newp) M      (* old one was the stubs: merged into the new *)
      else if path_suffix newp =? ".pyi" then M                              (* new one is the stubs: merged into the old *)
      else set_m key (MFile newp) M                                          (* two regular modules: the later one replaces *)
  | _ => set_m key (MFile newp) M
  end.

Definition static_loadable (p : path) : bool := (path_suffix p =? ".py") || (path_suffix p =? ".pyi").

Definition load_entry (insp : bool) (M : mstate) (e : entry) : mstate :=
  if existsb has_dot (e_parts e) then M else
  let mfp := fun k => (fst (e_base e), snd (e_base e) ++ firstn (k + 1) (e_rel e)) in
  match goc M [] (removelast (e_parts e)) 0 mfp with
  | (M1, None) => M1
  | (M1, Some pk) =>
      if static_loadable (e_abs e) || insp
      then set_member M1 (pk ++ [last (e_parts e) ""]) (e_abs e)
      else M1
  end.


Definition classify (key : list string) (v : minfo) : string :=
  match key, v with
  | [], MFile p => if is_init_name (last (snd p) "") then "P" else "M"
  | [], MNs _ => "NP"
  | _, MFile p => if is_init_name (last (snd p) "") then "S" else "M"
  | _, MNs _ => "NS"
  end.

Inductive loaded := LNotFound | LErr (e : string) | LOk (M : mstate).

Definition load_found (insp : bool) (U : universe) (f : found) : loaded :=
  match f with
  | FNone => LNotFound
  | FPkg p _ =>
      match node_at U p with
      | Some (File _ _) =>
          match iter_regular U p with
          | Err e => LErr e
          | Ok es => LOk (fold_left (load_entry insp) (depth_sort es) [([], MFile p)])
          end
      | _ => LErr "LoadingError"            (* read_text of a directory *)
      end
  | FNs ds =>
      LOk (fold_left (load_entry insp) (depth_sort (iter_portions U ds)) [([], MNs ds)])
  end.

Definition load (insp : bool) (U : universe) (sps : list nat) (name : string) : loaded :=
  load_found insp U (g_find U name (g_paths U sps) []).

(* ------------------------------------------------------------------------------------------------------------- *)
(* Loading by the PATH of a directory or file: finder._module_name_path and finder._top_module_name.
   Search directories are root directories of the universe; a path that makes _top_module_name add a directory that
   is not a root (a namespace folder above the target), or that is a search directory itself, is outside the model
   ([BPUnsupported], counted by the harness). *)
Definition first_init (L : listing) : option string :=
  find (fun fn => has_entry fn L) (map (fun ext => ("__init__" ++ ext)%string) accepted_exts).

(* _module_name_path: (module name, module path); None = FileNotFoundError *)
Definition module_name_path (U : universe) (p : path) : option (string * path) :=
  match node_at U p with
  | Some (Dir L) =>
      let name := last (snd p) "" in
      match first_init L with Some fn => Some (name, sub p fn) | None => Some (name, p) end
  | Some (File _ _) =>
      let fn := last (snd p) "" in
      if pl_stem fn =? "__init__" then Some (last (removelast (snd p)) "", p) else Some (pl_stem fn, p)
  | None => None
  end.

(* the `while` loop of _top_module_name: climb while the directory above has an __init__.py *)
Fixpoint climb (U : universe) (r : nat) (comps : list string) (fuel : nat) : option (string * option nat) :=
  match fuel with
  | O => None
  | S f =>
      let up := removelast comps in
      match listing_at U (r, up) with
      | Some L =>
          if has_entry "__init__.py" L
          then (match up with [] => None | _ => climb U r up f end)
          else (match up with [] => Some (last comps "", Some r) | _ => None end)
      | None => None
      end
  end.

(* _top_module_name: (top-level name, search directory inserted at position 0); None = outside the model *)
Definition top_module_name (U : universe) (paths : list nat) (mp : path) : option (string * option nat) :=
  let parent := match node_at U mp with Some (Dir _) => mp | _ => (fst mp, removelast (snd mp)) end in
  match snd parent with
  | [] => None
  | c :: _ => if mem_nat (fst parent) paths then Some (c, None)
              else climb U (fst parent) (snd parent) (List.length (snd parent))
  end.

Inductive byp := BPNotFound | BPUnsupported | BPLoaded (name : string) (l : loaded).

Definition load_by_path (U : universe) (sps : list nat) (p : path) : byp :=
  match module_name_path U p with
  | None => BPNotFound
  | Some (mn, mp) =>
      let paths := g_paths U sps in
      match top_module_name U paths mp with
      | None => BPUnsupported
      | Some (top, extra) =>
          let paths' := match extra with Some r => r :: paths | None => paths end in
          BPLoaded top
            (match load_found false U (g_find U top paths' []) with
             | LOk M => if mn =? top then LOk M else LErr "KeyError"       (* modules_collection.get_member(module name) *)
             | other => other
             end)
      end
  end.

(* ------------------------------------------------------------------------------------------------------------- *)
(* The state of a process: several GriffeLoaders, each with its ModuleFinder.  The mutable fields are the ones the code
   has (Gen/C14_tables.v: gen_finder_state, gen_loader_state): finder.search_paths (grown by a request by path whose
   directory is not searched yet), finder._paths_contents (a memo of directory listings), loader.modules_collection
   (the loaded top-level packages).  Class-level data (accepted extensions) is constant: no transition writes it.
   Requests are static loads (allow_inspection = false, no stubs package). *)
Record fstate := mkF { fs_paths : list nat; fs_cache : list (nat * listing) }.
Record lstate := mkL { ls_f : fstate; ls_coll : list (string * loaded) }.
Definition pstate := list (nat * lstate).
Inductive request := RNew (id : nat) (sps : list nat) | RName (id : nat) (name : string) | RPath (id : nat) (p : path).
Inductive answer := ANew | ANoLoader | ALoaded (l : loaded) | APath (b : byp).

(* ModuleFinder._contents *)
Definition contents (U : universe) (c : list (nat * listing)) (i : nat) : listing * list (nat * listing) :=
  match lookup_nat i c with Some L => (L, c) | None => (root U i, c ++ [(i, root U i)]) end.

(* find_package reading the listings through the memo *)
Fixpoint g_find_c (U : universe) (name : string) (paths : list nat) (nsacc : list path) (c : list (nat * listing))
  : found * list (nat * listing) :=
  match paths with
  | [] => (match nsacc with [] => FNone | _ => FNs nsacc end, c)
  | i :: r =>
      let '(L, c1) := contents U c i in
      let second (acc : list path) :=
          if has_entry (name ++ ".py")%string L
          then (FPkg (i, [(name ++ ".py")%string]) (if has_entry (name ++ ".pyi")%string L then Some (i, [(name ++ ".pyi")%string]) else None), c1)
          else g_find_c U name r acc c1 in
      match lookup_entry name L with
      | None => second nsacc
      | Some nd =>
          let inner := match nd with Dir l => l | File _ _ => [] end in
          let regular_init := match lookup_entry "__init__.py" inner with
                              | Some (File ns _) => negb ns
                              | Some (Dir _) => true
                              | None => false end in
          if regular_init
          then (FPkg (i, [name; "__init__.py"]) (if has_entry "__init__.pyi" inner then Some (i, [name; "__init__.pyi"]) else None), c1)
          else if has_entry "__init__.pyi" inner then (FPkg (i, [name; "__init__.pyi"]) None, c1)
          else second (nsacc ++ [(i, [name])])
      end
  end.

Fixpoint get_loader (id : nat) (S : pstate) : option lstate :=
  match S with [] => None | (k, l) :: r => if (k =? id)%nat then Some l else get_loader id r end.
Fixpoint set_loader (id : nat) (l : lstate) (S : pstate) : pstate :=
  match S with [] => [(id, l)] | (k, x) :: r => if (k =? id)%nat then (k, l) :: r else (k, x) :: set_loader id l r end.
Definition set_coll (name : string) (v : loaded) (c : list (string * loaded)) : list (string * loaded) :=
  (name, v) :: filter (fun kv => negb (fst kv =? name)) c.

(* what a request by path does to the search paths, and which top-level name it loads *)
Definition path_request_names (U : universe) (paths : list nat) (p : path) : option (option (string * string * list nat)) :=
  match module_name_path U p with
  | None => None                                   (* FileNotFoundError *)
  | Some (mn, mp) =>
      match top_module_name U paths mp with
      | None => Some None                          (* outside the model *)
      | Some (top, extra) => Some (Some (mn, top, match extra with Some r => r :: paths | None => paths end))
      end
  end.

Definition keep_or_keyerror (mn top : string) (l : loaded) : loaded :=
  match l with LOk M => if mn =? top then LOk M else LErr "KeyError" | other => other end.

Definition step (U : universe) (S : pstate) (r : request) : pstate * answer :=
  match r with
  | RNew id sps =>
      let paths := g_paths U sps in
      (set_loader id (mkL (mkF paths (map (fun i => (i, root U i)) (add_new sps []))) []) S, ANew)
  | RName id name =>
      match get_loader id S with
      | None => (S, ANoLoader)
      | Some l =>
          let '(f, c') := g_find_c U name (fs_paths (ls_f l)) [] (fs_cache (ls_f l)) in
          let res := load_found false U f in
          (set_loader id (mkL (mkF (fs_paths (ls_f l)) c') (set_coll name res (ls_coll l))) S, ALoaded res)
      end
  | RPath id p =>
      match get_loader id S with
      | None => (S, ANoLoader)
      | Some l =>
          match path_request_names U (fs_paths (ls_f l)) p with
          | None => (S, APath BPNotFound)
          | Some None => (S, APath BPUnsupported)
          | Some (Some (mn, top, paths')) =>
              let '(f, c') := g_find_c U top paths' [] (fs_cache (ls_f l)) in
              let res := load_found false U f in
              (set_loader id (mkL (mkF paths' c') (set_coll top res (ls_coll l))) S, APath (BPLoaded top (keep_or_keyerror mn top res)))
          end
      end
  end.

Fixpoint run_requests (U : universe) (S : pstate) (rs : list request) : pstate * list answer :=
  match rs with
  | [] => (S, [])
  | r :: rest => let '(S1, a) := step U S r in let '(S2, l) := run_requests U S1 rest in (S2, a :: l)
  end.

(* the stateless reference: the search paths of loader [id] after the requests addressed to it, nothing else *)
Fixpoint ref_paths (U : universe) (rs : list request) (id : nat) (cur : option (list nat)) : option (list nat) :=
  match rs with
  | [] => cur
  | RNew k sps :: rest => ref_paths U rest id (if (k =? id)%nat then Some (g_paths U sps) else cur)
  | RName _ _ :: rest => ref_paths U rest id cur
  | RPath k p :: rest =>
      ref_paths U rest id
        (if (k =? id)%nat
         then match cur with
              | Some paths => match path_request_names U paths p with Some (Some (_, _, paths')) => Some paths' | _ => cur end
              | None => None end
         else cur)
  end.

Definition ref_answer (U : universe) (paths : option (list nat)) (r : request) : answer :=
  match r with
  | RNew _ _ => ANew
  | RName _ name => match paths with None => ANoLoader | Some ps => ALoaded (load_found false U (g_find U name ps [])) end
  | RPath _ p =>
      match paths with
      | None => ANoLoader
      | Some ps => match path_request_names U ps p with
                   | None => APath BPNotFound
                   | Some None => APath BPUnsupported
                   | Some (Some (mn, top, ps')) => APath (BPLoaded top (keep_or_keyerror mn top (load_found false U (g_find U top ps' []))))
                   end
      end
  end.

Definition request_id (r : request) : nat := match r with RNew i _ | RName i _ | RPath i _ => i end.

(* ------------------------------------------------------------------------------------------------------------- *)
(* The authority: CPython 3.12 on Linux *)
Definition ext_suffix : string := ".cpython-312-x86_64-linux-gnu.so".
Definition py_suffixes : list string := [ext_suffix; ".abi3.so"; ".so"; ".py"; ".pyc"].   (* FileFinder loader order *)

Fixpoint first_file_with (stem : string) (sufs : list string) (L : listing) : option string :=
  match sufs with
  | [] => None
  | s :: r => if has_file (stem ++ s)%string L then Some (stem ++ s)%string else first_file_with stem r L
  end.

Inductive pyspec := PyPkg (init : path) (locs : list path) | PyMod (f : path) | PyNs (dirs : list path) | PyNone | PyErr.

(* what one path entry (FileFinder) answers *)
Inductive ffans := FFPkg (init : path) (dir : path) | FFMod (f : path) | FFPortion (dir : path) | FFNothing.

Definition file_finder (U : universe) (d : path) (name : string) : ffans :=
  match listing_at U d with
  | None => FFNothing
  | Some L =>
      let isdir := match lookup_entry name L with Some (Dir _) => true | _ => false end in
      let pkg := match lookup_entry name L with
                 | Some (Dir inner) => first_file_with "__init__" py_suffixes inner
                 | _ => None end in
      match pkg with
      | Some f => FFPkg (sub (sub d name) f) (sub d name)
      | None =>
          match first_file_with name py_suffixes L with
          | Some f => FFMod (sub d f)
          | None => if isdir then FFPortion (sub d name) else FFNothing
          end
      end
  end.

(* pkgutil.extend_path as run by an __init__.py that declares a namespace: every portion any entry of the parent
   path offers is appended *)
Definition extend_path (U : universe) (dirs : list path) (name : string) (own : path) : list path :=
  fold_left (fun acc d => match file_finder U d name with
                          | FFPkg _ x | FFPortion x => if mem_path x acc then acc else acc ++ [x]
                          | _ => acc end) dirs [own].

Definition init_declares_ns (U : universe) (init : path) : bool :=
  match node_at U init with Some (File true _) => path_suffix init =? ".py" | _ => false end.

Fixpoint py_find_loop (U : universe) (name : string) (all dirs : list path) (nsacc : list path) : pyspec :=
  match dirs with
  | [] => match nsacc with [] => PyNone | _ => PyNs nsacc end
  | d :: r =>
      match file_finder U d name with
      | FFPkg init x => PyPkg init (if init_declares_ns U init then extend_path U all name x else [x])
      | FFMod f => PyMod f
      | FFPortion x => py_find_loop U name all r (nsacc ++ [x])
      | FFNothing => py_find_loop U name all r nsacc
      end
  end.
Definition py_find (U : universe) (name : string) (dirs : list path) : pyspec := py_find_loop U name dirs dirs [].

(* importing executes the module: the harness writes valid (empty) source and byte code, but fake binaries *)
Definition executable (f : path) : bool := (path_suffix f =? ".py") || (path_suffix f =? ".pyc").

(* importlib.util.find_spec(dotted): parents are imported *)
Fixpoint py_import (U : universe) (dirs : list path) (parts : list string) : pyspec :=
  match parts with
  | [] => PyNone
  | [n] => py_find U n dirs
  | n :: r =>
      match py_find U n dirs with
      | PyPkg init locs => if executable init then py_import U locs r else PyErr
      | PyNs ds => py_import U ds r
      | PyMod f => if executable f then PyNone else PyErr     (* "is not a package" / import error *)
      | PyNone => PyNone
      | PyErr => PyErr
      end
  end.

(* inspect.getmodulename: longest suffix first *)
Definition modname_suffixes : list string := [ext_suffix; ".abi3.so"; ".pyc"; ".py"; ".so"].
Fixpoint getmodulename_with (fn : string) (sufs : list string) : option string :=
  match sufs with
  | [] => None
  | s :: r => match strip_suffix fn s with Some m => Some m | None => getmodulename_with fn r end
  end.
Definition getmodulename (fn : string) : option string := getmodulename_with fn modname_suffixes.

(* pkgutil._iter_file_finder_modules over one (sorted) directory listing *)
Definition has_init_module (inner : listing) : bool :=
  existsb (fun e => match getmodulename (fst e) with Some s => s =? "__init__" | None => false end) inner.

Fixpoint iter_dir_modules (L : listing) (yielded : list string) : list (string * bool) :=
  match L with
  | [] => []
  | (fn, nd) :: r =>
      let m := getmodulename fn in
      let stop := match m with Some s => (s =? "__init__") || mem_str s yielded | None => false end in
      if stop then iter_dir_modules r yielded else
      let empty := match m with Some s => s =? "" | None => true end in
      let cand : option (string * bool) :=
          match nd with
          | Dir inner =>
              if empty && negb (has_dot fn)
              then (if has_init_module inner then Some (fn, true) else None)
              else (match m with Some s => Some (s, false) | None => None end)
          | File _ _ => match m with Some s => Some (s, false) | None => None end
          end in
      match cand with
      | Some (mn, ispkg) =>
          if negb (mn =? "") && negb (has_dot mn)
          then (mn, ispkg) :: iter_dir_modules r (mn :: yielded)
          else iter_dir_modules r yielded
      | None => iter_dir_modules r yielded
      end
  end.

(* pkgutil.iter_modules(path): first yield of a name wins across path entries *)
Fixpoint iter_modules (U : universe) (dirs : list path) (yielded : list string) : list (string * bool) :=
  match dirs with
  | [] => []
  | d :: r =>
      let here := match listing_at U d with Some L => iter_dir_modules (sort_listing L) [] | None => [] end in
      let fresh := (fix go (l : list (string * bool)) (y : list string) : list (string * bool) :=
                      match l with
                      | [] => []
                      | (m, b) :: t => if mem_str m y then go t y else (m, b) :: go t (m :: y)
                      end) here yielded in
      fresh ++ iter_modules U r (map fst fresh ++ yielded)
  end.

(* pkgutil.walk_packages(path, prefix): packages are imported to read their __path__ *)
Fixpoint py_walk (fuel : nat) (U : universe) (dirs : list path) (prefix : list string) : list (list string * bool) :=
  match fuel with
  | O => []
  | S f =>
      flat_map (fun mb : string * bool => let '(m, ispkg) := mb in
                          (prefix ++ [m], ispkg) ::
                          (if ispkg then
                             match py_find U m dirs with
                             | PyPkg init locs => if executable init then py_walk f U locs (prefix ++ [m]) else []
                             | PyNs ds => py_walk f U ds (prefix ++ [m])
                             | _ => []
                             end
                           else [])) (iter_modules U dirs [])
  end.

(* site.addsitedir for every search path in turn: *.pth in sorted order, relative lines relative to the site dir,
   not transitive *)
Definition pth_targets_py (L : listing) : list nat :=
  flat_map (fun e : string * node => match snd e with
                     | File _ lines => if match strip_suffix (fst e) ".pth" with Some _ => true | None => false end
                                       then flat_map (fun l : bool * nat => if fst l then [] else [snd l]) lines   (* a line that only exists relative to the cwd is not found *)
                                       else []
                     | Dir _ => [] end) (sort_listing L).

Definition py_paths (U : universe) (sps : list nat) : list nat :=
  let s := add_new sps [] in
  fold_left (fun acc p => acc ++ add_new (pth_targets_py (root U p)) acc) s s.

(* ------------------------------------------------------------------------------------------------------------- *)
(* Decidable shapes of layouts on which the unchanged code is known to leave the property (one per finding), and
   the shapes this development puts out of scope.  They classify failing inputs at run time and are the extra
   hypotheses of the *_modulo_known theorems. *)
Fixpoint listings_of (n : node) : list listing :=
  match n with
  | File _ _ => []
  | Dir es => es :: flat_map (fun e : string * node => let '(nm, x) := e in
                                if nm =? "__pycache__" then [] else listings_of x) es
  end.
Definition all_listings (U : universe) : list listing := flat_map (fun il : nat * listing => listings_of (Dir (snd il))) U.

Definition is_src_ext (x : string) : bool := (x =? ".py") || (x =? ".pyi").
Definition module_stem (fn : string) : string :=
  if pl_suffix fn =? ".py" then pl_stem fn else before_first_dot (pl_stem fn).

Fixpoint has_dup (l : list string) : bool :=
  match l with [] => false | x :: r => mem_str x r || has_dup r end.

Definition any_listing (f : listing -> bool) (U : universe) : bool := existsb f (all_listings U).

(* .pth files *)
Definition pth_files (L : listing) : list (string * list (bool * nat)) :=
  flat_map (fun e : string * node => match snd e with
                     | File _ lines => if pl_suffix (fst e) =? ".pth" then [(fst e, lines)] else []
                     | Dir _ => [] end) L.
(* F6 (what is left of it): some .pth line exists only relative to the current directory *)
Definition gapU_F6 (U : universe) : bool :=
  existsb (fun il : nat * listing => existsb (fun f : string * list (bool * nat) => existsb (fun l : bool * nat => fst l) (snd f)) (pth_files (snd il))) U.

(* a file called exactly ".pth": site (CPython 3.12.1) reads it, pathlib gives it no suffix (newer CPythons skip every
   hidden .pth file); outside the stated domain *)
Definition pth_names_okb (U : universe) : bool :=
  forallb (fun il : nat * listing => forallb (fun e : string * node => negb (fst e =? ".pth")) (snd il)) U.

(* namespace packages over several portions: the shapes of the repaired findings F8, F3 and F10, as predicates on
   the list of yielded entries (Proofs/C14_ns.v: the repaired iter_portions never yields such a list) *)
Definition entry_ok (e : entry) : bool := negb (existsb has_dot (e_parts e)) && static_loadable (e_abs e).

(* F8: two source files of one name and suffix from different portions *)
Fixpoint dup_across (es : list entry) : bool :=
  match es with
  | [] => false
  | e :: r => (static_loadable (e_abs e) &&
               existsb (fun e' => lstr_eqb (e_parts e) (e_parts e') && (path_suffix (e_abs e) =? path_suffix (e_abs e')) &&
                                  negb (path_eqb (e_base e) (e_base e'))) r)
              || dup_across r
  end.

(* proper non-empty prefixes of a list *)
Fixpoint proper_prefixes {A} (l : list A) : list (list A) :=
  match l with
  | [] => []
  | x :: r => match r with [] => [] | _ => [x] :: map (cons x) (proper_prefixes r) end
  end.

Fixpoint is_prefix (a b : list string) : bool :=
  match a, b with
  | [], _ => true
  | x :: a', y :: b' => (x =? y) && is_prefix a' b'
  | _, _ => false
  end.

Fixpoint is_proper_prefix (a b : list string) : bool :=
  match a, b with
  | [], _ :: _ => true
  | x :: a', y :: b' => (x =? y) && is_proper_prefix a' b'
  | _, _ => false
  end.

(* F3/F10: something is yielded from inside a folder that ANOTHER portion provides as a regular package *)
Definition shadow_violation (es : list entry) : bool :=
  existsb (fun i => is_init_entry i && negb (path_suffix (e_abs i) =? ".pyi") &&
                    existsb (fun e => is_prefix (e_parts i) (e_folders e) && negb (path_eqb (e_base e) (e_base i))) es) es.

Definition decl_mixed (U : universe) (name : string) (paths : list nat) : bool :=
  let decl i := match lookup_entry name (root U i) with
                | Some (Dir inner) => match lookup_entry "__init__.py" inner with Some (File true _) => true | _ => false end
                | _ => false end in
  let other i := (negb (decl i) && has_entry name (root U i)) || has_entry (name ++ ".py")%string (root U i) in
  existsb decl paths && existsb other paths.

Definition gaps (U : universe) (sps : list nat) (name : string) : list string :=
  let tag (b : bool) (t : string) := if b then [t] else [] in
  tag (gapU_F6 U) "F6" ++ tag (negb (pth_names_okb U)) "pth-dot-name" ++ tag (decl_mixed U name (g_paths U sps)) "nsdecl-mixed".

(* ------------------------------------------------------------------------------------------------------------- *)
(* Decidable hypotheses of the importability theorem (Proofs/C14_finder.v, Part H/I): is a regular package inside its domain? *)
Definition compiled_suffixes : list string := [ext_suffix; ".abi3.so"; ".so"; ".pyc"].


Definition is_pyi (e : entry) : bool := path_suffix (e_abs e) =? ".pyi".


Fixpoint nodupb (l : list string) : bool :=
  match l with [] => true | x :: r => negb (mem_str x r) && nodupb r end.


Definition srcb (es : listing) : bool :=
  forallb (fun e : string * node =>
             negb (is_file (snd e)) ||
             forallb (fun s => match strip_suffix (fst e) s with Some _ => false | None => true end) compiled_suffixes) es &&
  match lookup_entry "__init__.py" es with Some (File true _) => false | _ => true end.

Fixpoint tree_okb (n : node) : bool :=
  match n with
  | File _ _ => true
  | Dir es => nodupb (map fst es) && srcb es && forallb (fun e : string * node => tree_okb (snd e)) es
  end.


Definition key_okb (k : list string) : bool :=
  negb (match k with [] => true | _ => false end) &&
  forallb (fun c => negb (c =? "") && negb (c =? "__init__") && negb (c =? "__pycache__")) k.

(* is this regular package inside the domain of the importability theorem? *)
Definition in_domain (U : universe) (i : nat) (dirc : list string) : bool :=
  match node_at U (i, dirc) with
  | Some (Dir L0) => tree_okb (Dir L0)
  | _ => false
  end.


(* ------------------------------------------------------------------------------------------------------------- *)
(* s-expression interface *)
Fixpoint dec_node (fuel : nat) (s : sexp) : option node :=
  match fuel with
  | O => None
  | S f =>
      match s with
      | SList [SStr "f"; ns; SList lines] =>
          do ns' <- as_bool ns;
          do ls <- map_opt (fun l => match l with
                                     | SList [r; SInt z] => do r' <- as_bool r; do n <- as_nat (SInt z); Some (r', n)
                                     | _ => None end) lines;
          Some (File ns' ls)
      | SList [SStr "d"; SList es] =>
          do es' <- map_opt (fun e => match e with
                                      | SList [SStr n; x] => do x' <- dec_node f x; Some (n, x')
                                      | _ => None end) es;
          Some (Dir es')
      | _ => None
      end
  end.

Definition dec_listing (s : sexp) : option listing :=
  match dec_node 64 (SList [SStr "d"; s]) with Some (Dir l) => Some l | _ => None end.

Definition dec_universe (s : sexp) : option universe :=
  as_list_of (fun e => match e with
                       | SList [i; l] => do i' <- as_nat i; do l' <- dec_listing l; Some (i', l')
                       | _ => None end) s.

Definition enc_path (p : path) : sexp := SList [of_nat (fst p); SList (map SStr (snd p))].
Definition enc_found (f : found) : sexp :=
  match f with
  | FNone => SList [SStr "notfound"]
  | FNs ds => SList [SStr "ns"; SList (map enc_path ds)]
  | FPkg p st => SList [SStr "pkg"; enc_path p; of_opt enc_path st]
  end.
Definition enc_pyspec (s : pyspec) : sexp :=
  match s with
  | PyNone => SList [SStr "notfound"]
  | PyErr => SList [SStr "err"]
  | PyNs ds => SList [SStr "ns"; SList (map enc_path ds)]
  | PyPkg i locs => SList [SStr "pkg"; enc_path i; SList (map enc_path locs)]
  | PyMod f => SList [SStr "mod"; enc_path f]
  end.
Definition enc_minfo (name : string) (kv : list string * minfo) : sexp :=
  let '(k, v) := kv in
  SList [SList (map SStr (name :: k)); SStr (classify k v);
         match v with
         | MFile p => SList [SStr "file"; SList [enc_path p]]
         | MNs ps => SList [SStr "ns"; SList (map enc_path ps)]
         end].
Definition enc_loaded (name : string) (l : loaded) : sexp :=
  match l with
  | LNotFound => SList [SStr "notfound"]
  | LErr e => SList [SStr "err"; SStr e]
  | LOk M => SList [SStr "ok"; SList (map (enc_minfo name) M)]
  end.

Definition dec_case (s : sexp) : option (universe * list nat * string) :=
  match s with
  | SList [u; sp; SStr name] =>
      do u' <- dec_universe u; do sp' <- as_list_of as_nat sp;
      if has_dot name then None else Some (u', sp', name)
  | _ => None
  end.

Definition top_dirs (ps : list nat) : list path := map (fun i => (i, [])) ps.

Definition run_C14 (s : sexp) : sexp :=
  match s with
  | SList [SStr "paths"; c] =>
      match dec_case c with
      | Some (u, sp, _) => SList [SList (map of_nat (g_paths u sp)); SList (map of_nat (py_paths u sp))]
      | None => bad_input end
  | SList [SStr "find"; c] =>
      match dec_case c with
      | Some (u, sp, n) => let ps := g_paths u sp in SList [SStr "ok"; SList (map of_nat ps); enc_found (g_find u n ps [])]
      | None => bad_input end
  | SList [SStr "load"; insp; c] =>
      match dec_case c, as_bool insp with
      | Some (u, sp, n), Some i => enc_loaded n (load i u sp n)
      | _, _ => bad_input end
  | SList [SStr "bypath"; c; tgt] =>
      match dec_case c, tgt with
      | Some (u, sp, _), SList [r; comps] =>
          match as_nat r, as_list_of as_str comps with
          | Some r', Some cs =>
              match load_by_path u sp (r', cs) with
              | BPNotFound => SList [SStr "err"; SStr "FileNotFoundError"]
              | BPUnsupported => SList [SStr "unsupported"]
              | BPLoaded top l => enc_loaded top l
              end
          | _, _ => bad_input
          end
      | _, _ => bad_input end
  | SList [SStr "history"; c; SList reqs] =>
      (* a history of requests on the loaders of one process: [["new", id, [sps]] | ["name", id, name] | ["path", id, [root, comps]]] *)
      match dec_case c with
      | Some (u, _, _) =>
          let dec (r : sexp) : option request :=
              match r with
              | SList [SStr "new"; i; sp] => do i' <- as_nat i; do sp' <- as_list_of as_nat sp; Some (RNew i' sp')
              | SList [SStr "name"; i; SStr n] => do i' <- as_nat i; Some (RName i' n)
              | SList [SStr "path"; i; SList [r0; comps]] => do i' <- as_nat i; do r' <- as_nat r0; do cs <- as_list_of as_str comps; Some (RPath i' (r', cs))
              | _ => None
              end in
          match map_opt dec reqs with
          | Some rs =>
              let enc (ra : request * answer) : sexp :=
                  match snd ra with
                  | ANew => SList [SStr "new"]
                  | ANoLoader => SList [SStr "noloader"]
                  | ALoaded l => enc_loaded (match fst ra with RName _ n => n | _ => "" end) l
                  | APath BPNotFound => SList [SStr "err"; SStr "FileNotFoundError"]
                  | APath BPUnsupported => SList [SStr "unsupported"]
                  | APath (BPLoaded top l) => enc_loaded top l
                  end in
              (* second component: for every request, whether the loader's search paths are still the ones it was created with *)
              let fresh_paths (k : nat) (r : request) : sexp :=
                  let pre := firstn k rs in
                  let id := request_id r in
                  of_bool (match ref_paths u pre id None,
                                 ref_paths u (filter (fun q => match q with RPath _ _ => false | _ => true end) pre) id None with
                           | Some a, Some b => if list_eq_dec Nat.eq_dec a b then true else false
                           | None, None => true
                           | _, _ => false end) in
              SList [SList (map enc (combine rs (snd (run_requests u [] rs))));
                     SList (map (fun kr => fresh_paths (fst kr) (snd kr)) (combine (seq 0 (List.length rs)) rs))]
          | None => bad_input
          end
      | None => bad_input end
  | SList [SStr "subs"; c] =>
      (* finder.submodules(top module): the ordered list handed to the loader *)
      match dec_case c with
      | Some (u, sp, n) =>
          let enc es := SList (map (fun e => SList [SList (map SStr (e_parts e)); enc_path (e_abs e)]) (depth_sort es)) in
          match g_find u n (g_paths u sp) [] with
          | FPkg p _ => match iter_regular u p with Ok es => enc es | Err e => SList [SStr "err"; SStr e] end
          | FNs ds => enc (iter_portions u ds)
          | FNone => SList [SStr "notfound"]
          end
      | None => bad_input end
  | SList [SStr "nsok"; c] =>
      (* the shapes of F8 / F3 / F10 on what iter_portions yields (Proofs/C14_ns.v: always false) *)
      match dec_case c with
      | Some (u, sp, n) =>
          match g_find u n (g_paths u sp) [] with
          | FNs ds => SList [of_bool (dup_across (iter_portions u ds)); of_bool (shadow_violation (iter_portions u ds));
                             of_bool (dup_across (all_subs u ds)); of_bool (shadow_violation (all_subs u ds))]
          | _ => SList []
          end
      | None => bad_input end
  | SList [SStr "gaps"; c] =>
      match dec_case c with
      | Some (u, sp, n) => SList (map SStr (gaps u sp n))
      | None => bad_input end
  | SList [SStr "domain"; c] =>
      match dec_case c with
      | Some (u, sp, n) =>
          match g_find u n (g_paths u sp) [] with
          | FPkg (i, comps) _ =>
              if (last comps "" =? "__init__.py") && (2 <=? List.length comps)%nat
              then of_bool (in_domain u i (removelast comps)) else of_bool false
          | _ => of_bool false
          end
      | None => bad_input end
  | SList [SStr "pyfind"; c] =>
      match dec_case c with
      | Some (u, sp, n) => enc_pyspec (py_find u n (top_dirs (py_paths u sp)))
      | None => bad_input end
  | SList [SStr "pyimport"; c; q] =>
      match dec_case c, as_list_of (as_list_of as_str) q with
      | Some (u, sp, _), Some qs => SList (map (fun parts => enc_pyspec (py_import u (top_dirs (py_paths u sp)) parts)) qs)
      | _, _ => bad_input end
  | SList [SStr "pywalk"; c] =>
      match dec_case c with
      | Some (u, sp, n) =>
          let dirs := top_dirs (py_paths u sp) in
          match py_find u n dirs with
          | PyPkg init locs =>
              if executable init
              then SList (map (fun nb => SList [SList (map SStr (fst nb)); of_bool (snd nb)]) (py_walk 40 u locs [n]))
              else SList []
          | PyNs ds => SList (map (fun nb => SList [SList (map SStr (fst nb)); of_bool (snd nb)]) (py_walk 40 u ds [n]))
          | _ => SList []
          end
      | None => bad_input end
  | _ => bad_input
  end.
