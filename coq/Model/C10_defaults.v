(* C10 model, part 2: default values.
   In Model/C10_diff.v a default is an abstract value with decidable equality (a nat: `pdef : option nat`, compared by
   `odef_eqb`).  This file says where those abstract values come from.  A default is the expression tree CPython compiles
   (Python's ast after parsing: grouping is structure, parentheses are gone); an equality on defaults is given by a KEY
   function (two defaults are equal iff their keys are); the abstract value of a default is the position of the first
   default of the pair with the same key.  Three keys:
     ast_key  = the tree itself                 -- the authority: what CPython compiles
     impl_key = what Griffe's Expr tree keeps   -- diff.py compares `old_param.default != new_param.default`, i.e. str
                equality for constants (their repr) and the dataclass equality of Expr nodes (ExprName: by name); the
                only thing the Expr tree does not keep is the conversion / format spec of an f-string replacement field
                (FMT_LOSSY, read from expressions.py by the translator)
     text_key = the token sequence, grouping forgotten -- what comparing parenthesis-free renderings would see (NOT what
                the code does; kept as the documented counter-example, see Proofs/C10_defaults.v)
   Executable definitions only. *)
From Coq Require Import List Arith Bool ZArith String.
From Verif Require Import Lib.Sexp Model.C10_kinds Gen.C10_tables Gen.C10_rules Model.C10_diff.
Import ListNotations.
Open Scope list_scope. Open Scope nat_scope.

(* tags of interior nodes: 1 Add, 2 Sub, 3 Mult, 4 FloorDiv, 5 Mod, 6 Pow (left, right); 7 USub, 8 UAdd (operand, nil);
   9 list cell (head, tail); >= 100: any other ast node class with its scalar fields, interned by the harness, children as
   a list in the right subtree.  DAtom 0 = nil; other atoms: names, non-integer constants (by repr), interned. *)
Inductive dexp :=
| DNum (z : Z)
| DAtom (t : nat)
| DNode (t : nat) (l r : dexp)
| DFmt (e : dexp) (conv : nat) (spec : dexp).

Fixpoint dexp_eqb (a b : dexp) : bool :=
  match a, b with
  | DNum x, DNum y => Z.eqb x y
  | DAtom s, DAtom t => Nat.eqb s t
  | DNode s l r, DNode t l' r' => Nat.eqb s t && dexp_eqb l l' && dexp_eqb r r'
  | DFmt e c s, DFmt e' c' s' => dexp_eqb e e' && Nat.eqb c c' && dexp_eqb s s'
  | _, _ => false
  end.

(* ---- the three keys ---- *)
Definition ast_key (a : dexp) : dexp := a.

Fixpoint erase_fmt (a : dexp) : dexp :=
  match a with
  | DNode t l r => DNode t (erase_fmt l) (erase_fmt r)
  | DFmt e _ _ => DFmt (erase_fmt e) 0 (DAtom 0)
  | x => x
  end.
Definition impl_key (a : dexp) : dexp := if FMT_LOSSY then erase_fmt a else a.

Inductive tok := TNum (z : Z) | TAtom (t : nat) | TOp (t : nat) | TFmt (c : nat).
Definition tok_eqb (a b : tok) : bool :=
  match a, b with
  | TNum x, TNum y => Z.eqb x y | TAtom s, TAtom t => Nat.eqb s t | TOp s, TOp t => Nat.eqb s t | TFmt s, TFmt t => Nat.eqb s t
  | _, _ => false end.
Fixpoint toks_eqb (a b : list tok) : bool :=
  match a, b with [], [] => true | x :: r, y :: s => tok_eqb x y && toks_eqb r s | _, _ => false end.
Definition is_unary t := Nat.eqb t 7 || Nat.eqb t 8.
Definition is_binary t := Nat.leb 1 t && Nat.leb t 6.
Fixpoint text_key (a : dexp) : list tok :=
  match a with
  | DNum z => [TNum z]
  | DAtom t => [TAtom t]
  | DNode t l r => if is_binary t then text_key l ++ [TOp t] ++ text_key r
                   else if is_unary t then TOp t :: text_key l
                   else TOp t :: text_key l ++ text_key r
  | DFmt e c s => TFmt c :: text_key e ++ text_key s
  end.

(* ---- what CPython computes, for closed integer arithmetic (None: not in that fragment, or an exception) ---- *)
Fixpoint dval (a : dexp) : option Z :=
  match a with
  | DNum z => Some z
  | DNode t l r =>
      if Nat.eqb t 7 then (do x <- dval l; Some (- x)%Z)
      else if Nat.eqb t 8 then dval l
      else do x <- dval l; do y <- dval r;
           match t with
           | 1 => Some (x + y)%Z | 2 => Some (x - y)%Z | 3 => Some (x * y)%Z
           | 4 => if (y =? 0)%Z then None else Some (x / y)%Z
           | 5 => if (y =? 0)%Z then None else Some (x mod y)%Z
           | 6 => if (y <? 0)%Z then None else Some (x ^ y)%Z
           | _ => None end
  | _ => None
  end.

(* ---- abstract values: position of the first default with the same key ---- *)
Section Intern.
  Variable K : Type.
  Variable keq : K -> K -> bool.
  Variable key : dexp -> K.
  Fixpoint first_idx (k : K) (pool : list dexp) : nat :=
    match pool with [] => 0 | x :: r => if keq (key x) k then 0 else S (first_idx k r) end.
  Definition ident (pool : list dexp) (d : dexp) : nat := S (first_idx (key d) pool).
End Intern.
Arguments first_idx {K}. Arguments ident {K}.

(* signatures whose defaults are expression trees *)
Record xparam := xmk { xname : nat; xkind : kind; xdef : option dexp }.
Definition xsig := list xparam.
Definition defaults_of (s : xsig) : list dexp :=
  flat_map (fun p => match xdef p with Some d => if var_kind (xkind p) then [] else [d] | None => [] end) s.
(* variadic parameters carry the placeholder "()" / "{}" : abstract value 0 *)
Definition abs_param (idf : dexp -> nat) (p : xparam) : param :=
  mk (xname p) (xkind p) (match xdef p with None => None | Some d => Some (if var_kind (xkind p) then 0 else idf d) end).
Definition abs_sig (idf : dexp -> nat) (s : xsig) : sig := map (abs_param idf) s.
Definition pool_of (old new : xsig) : list dexp := defaults_of old ++ defaults_of new.

Definition ast_ident (old new : xsig) := ident dexp_eqb ast_key (pool_of old new).
Definition impl_ident (old new : xsig) := ident dexp_eqb impl_key (pool_of old new).
Definition text_ident (old new : xsig) := ident toks_eqb text_key (pool_of old new).

(* F8 (finding C10-F8): some parameter optional and non-variadic on both sides whose default CPython compiles to a
   different tree while the implementation's key is the same *)
Fixpoint xfind (n : nat) (s : xsig) : option xparam :=
  match s with [] => None | p :: r => if Nat.eqb (xname p) n then Some p else xfind n r end.
Definition f8_param (new : xsig) (op : xparam) : bool :=
  match xfind (xname op) new with
  | Some np => negb (var_kind (xkind op)) && negb (var_kind (xkind np)) &&
               match xdef op, xdef np with
               | Some a, Some b => negb (dexp_eqb a b) && dexp_eqb (impl_key a) (impl_key b)
               | _, _ => false end
  | None => false end.
Definition F8 (old new : xsig) : bool := existsb (f8_param new) old.
Definition f8_names (old new : xsig) : list nat := map xname (filter (f8_param new) old).

(* ---- s-expression decoding ---- *)
Fixpoint dec_dexp (s : sexp) {struct s} : option dexp :=
  match s with
  | SList [SStr "n"; SInt z] => Some (DNum z)
  | SList [SStr "a"; t] => do t' <- as_nat t; Some (DAtom t')
  | SList [SStr "d"; t; l; r] => do t' <- as_nat t; do l' <- dec_dexp l; do r' <- dec_dexp r; Some (DNode t' l' r')
  | SList [SStr "f"; e; c; sp] => do e' <- dec_dexp e; do c' <- as_nat c; do sp' <- dec_dexp sp; Some (DFmt e' c' sp')
  | _ => None
  end%string.
Definition dec_xparam (s : sexp) : option xparam :=
  match s with
  | SList [n; k; d] => do n' <- as_nat n; do k' <- dec_kind k; do d' <- as_opt dec_dexp d; Some (xmk n' k' d')
  | _ => None end.
Definition dec_xsig := as_list_of dec_xparam.
