(* C15 model: what GriffeLoader.load and the public entry points do to the interpreter.  Executable definitions only.
     - CPython's import of a dotted name over an abstract world of module behaviours (authority model; tied by the
       execution-log correspondence),
     - importer.sys_path / importer.dynamic_import as state transformers over {sys.path binding, list heap, sys.modules},
     - Inspector.get_module (import-path computation), GriffeLoader._inspect_module (its statements interpreted in source
       order: ignored prefixes, source read, inspect with the SystemExit mapping), _load_module(_path), _load_submodule,
       _load_package, load (with the ModuleNotFoundError fallback),
     - re-entrant loads as request trees: alias resolution / wildcard expansion call self.load on the same loader, and a
       re-entered package with stubs re-enters again from inside its own _load_package, to any depth,
     - the finder's search paths (`search_paths or sys.path`, resolved, first occurrence kept) and the public entry points
       (load, load_git, `griffe dump`, the loads of `griffe check`) as sequences of loaders with the options forwarded as
       Gen/C15_ladder.v says,
     - s-expression codecs and run_C15.
   The decision tables (agent ladder, handler lists, restore protocol, statement order of _inspect_module, which files
   are read, finder fallback, option forwarding) come from Gen/C15_ladder.v, which is regenerated from loader.py /
   importer.py / finder.py / cli.py on every run. *)
From Coq Require Import List ZArith String Ascii Bool Arith.
From Verif Require Import Lib.Sexp Model.C15_base Gen.C15_ladder.
Import ListNotations.
Open Scope string_scope. Open Scope list_scope. Open Scope nat_scope.

Definition name := list string.      (* dotted module path, split at the dots *)
Definition path := list string.      (* file-system path, split into components *)

Fixpoint list_eqb {A} (eqb : A -> A -> bool) (a b : list A) : bool :=
  match a, b with
  | [], [] => true
  | x :: a', y :: b' => eqb x y && list_eqb eqb a' b'
  | _, _ => false
  end.
Definition name_eqb : name -> name -> bool := list_eqb String.eqb.
Definition mem_name (n : name) (l : list name) : bool := existsb (name_eqb n) l.

(* ------------------------------------------------------------------ the world: files and what importing them does *)

(* what a module body does to sys.path when it runs *)
Inductive effect :=
| EIns0 (p : path) | EApp (p : path) | EClear | ERebind (l : list path)
| EScope (paths : list path) (inner : list effect).
(* EScope: the body itself enters `with sys_path(paths...):` -- directly, or by calling dynamic_import(name, paths), inspect(...),
   load(..., force_inspection=True) at import time -- and does [inner] to sys.path inside: scopes nest like a stack *)

Record behaviour := mkBeh {
  b_home : option path;        (* top-level modules: the sys.path entry that makes them importable; None: found through the parent / built in *)
  b_runs : bool;               (* false: the import fails before any code of the module runs (garbage extension module) *)
  b_effects : list effect;
  b_fault : option exn }.      (* the body raises this after its effects *)

Inductive vfault := VSyntax | VUnicode.
Definition vfault_exn (v : vfault) : exn := match v with VSyntax => XSyntaxError | VUnicode => XUnicodeDecode end.

(* one module file as the finder hands it to the loader *)
Record modfile := mkMod { m_name : name; m_dir : path; m_stem : string; m_suffix : string; m_vfault : option vfault }.

(* a Path object that does not exist; a top-level __init__.py that is not UTF-8 (read by the namespace-package test) *)
Inductive ferr := FEFileNotFound | FEUnicode.
Definition ferr_exn (e : ferr) : exn := match e with FEFileNotFound => XFileNotFound | FEUnicode => XUnicodeDecode end.

Inductive found :=
| FPkg (top : modfile) (subs : list modfile) (stubs : option (modfile * list modfile))
| FNs (n : name) (subs : list modfile)
| FMissing (via : option (modfile * list modfile))    (* not on disk; Some: the imported top-level module has a __path__ *)
| FFinderError (e : ferr).                             (* find_spec itself raises something else than ModuleNotFoundError *)

Record world := mkWorldL {
  w_find : list (string * found);
  w_beh : list (name * behaviour);
  w_attr : list (name * string * option exn);   (* getattr(owner, part): listed with None = succeeds; unlisted = AttributeError *)
  w_walk : list (name * exn);                   (* walking the imported object raises *)
  w_lazy : list name }.                         (* packages with a lazy module-level __getattr__: getattr(pkg, name) imports pkg.name *)
Definition mkWorld f b a wk : world := mkWorldL f b a wk [].

Fixpoint find_pkg (l : list (string * found)) (k : string) : found :=
  match l with [] => FMissing None | (k', f) :: r => if String.eqb k' k then f else find_pkg r k end.
Fixpoint lookup_beh (l : list (name * behaviour)) (k : name) : option behaviour :=
  match l with [] => None | (k', b) :: r => if name_eqb k' k then Some b else lookup_beh r k end.
Fixpoint lookup_attr (l : list (name * string * option exn)) (o : name) (p : string) : option (option exn) :=
  match l with
  | [] => None
  | (o', p', r) :: t => if name_eqb o' o && String.eqb p' p then Some r else lookup_attr t o p
  end.
Fixpoint lookup_walk (l : list (name * exn)) (k : name) : option exn :=
  match l with [] => None | (k', x) :: r => if name_eqb k' k then Some x else lookup_walk r k end.

(* ------------------------------------------------------------------ interpreter state *)

Inductive event :=
| EvVisit (n : name) (sfx : string)
| EvInspect (n : name) (sfx : string)
| EvCreate (n : name)
| EvSkip (n : name) (sfx : string)            (* submodule whose loading error is logged and dropped *)
| EvOrphan (n : name) (sfx : string)          (* submodule whose parent package was not loaded: never handed to an agent *)
| EvExec (n : name) (seen : list path)        (* a module body ran; sys.path as it saw it *)
| EvRead (n : name) (sfx : string)            (* the loader read the module's file itself (read_text, utf8) *)
| EvDone (req : string) (r : option exn).     (* a load(req) call returned / raised *)

Record st := mkSt {
  cur : nat;                    (* identity of the list object bound to sys.path *)
  next : nat;                   (* next fresh identity *)
  heap : nat -> list path;      (* contents of list objects *)
  mods : list name;             (* sys.modules (names of interest) *)
  log : list event }.           (* newest first *)

Definition upd (h : nat -> list path) (i : nat) (v : list path) : nat -> list path :=
  fun j => if Nat.eqb j i then v else h j.

Definition log_ev (e : event) (s : st) : st := mkSt (cur s) (next s) (heap s) (mods s) (e :: log s).
Definition add_mod (m : name) (s : st) : st := mkSt (cur s) (next s) (heap s) (m :: mods s) (log s).
Definition set_cur (c : nat) (s : st) : st := mkSt c (next s) (heap s) (mods s) (log s).
Definition rebind (l : list path) (s : st) : st := mkSt (next s) (S (next s)) (upd (heap s) (next s) l) (mods s) (log s).
Definition mutate (f : list path -> list path) (s : st) : st :=
  mkSt (cur s) (next s) (upd (heap s) (cur s) (f (heap s (cur s)))) (mods s) (log s).

(* importer.sys_path: the binding that was there on entry is kept in the frame of the context manager (a local variable) *)
Definition is_nil {A} (l : list A) : bool := match l with [] => true | _ => false end.

Definition with_sys_path {A} (paths : list path) (body : st -> (exn + A) * st) (s : st) : (exn + A) * st :=
  if is_nil paths && sys_path_noop_when_empty then body s
  else
    let old := cur s in
    let (r, s2) := body (rebind paths s) in
    match r with
    | inr _ => (r, set_cur old s2)
    | inl _ => (r, if sys_path_restores_on_exception then set_cur old s2 else s2)
    end.

(* a `with sys_path(paths...):` block around something that only changes the interpreter state *)
Definition scoped (paths : list path) (body : st -> st) (s : st) : st :=
  snd (with_sys_path paths (fun s0 => (inr tt : exn + unit, body s0)) s).

Fixpoint apply_effect (e : effect) (s : st) {struct e} : st :=
  match e with
  | EIns0 p => mutate (fun l => p :: l) s
  | EApp p => mutate (fun l => l ++ [p]) s
  | EClear => mutate (fun _ => []) s
  | ERebind l => rebind l s
  | EScope paths inner =>
      scoped paths (fun s0 => (fix go (es : list effect) (s1 : st) {struct es} : st :=
                                 match es with [] => s1 | x :: r => go r (apply_effect x s1) end) inner s0) s
  end.
Definition apply_effects (es : list effect) (s : st) : st := fold_left (fun s e => apply_effect e s) es s.

(* ------------------------------------------------------------------ CPython: importlib.import_module(dotted name) *)

Definition mem_path (p : path) (l : list path) : bool := existsb (list_eqb String.eqb p) l.

Definition visible (b : behaviour) (sp : list path) : bool :=
  match b_home b with None => true | Some h => mem_path h sp end.

(* import the prefixes pre++[p1], pre++[p1;p2], ... in order; parents already in sys.modules are not re-executed;
   a failed module is not recorded, its successfully imported parents stay *)
Fixpoint import_prefixes (w : world) (pre : name) (rest : list string) (s : st) : option exn * st :=
  match rest with
  | [] => (None, s)
  | part :: rest' =>
      let m := pre ++ [part] in
      if mem_name m (mods s) then import_prefixes w m rest' s
      else match lookup_beh (w_beh w) m with
           | None => (Some XModuleNotFound, s)
           | Some b =>
               if visible b (heap s (cur s)) then
                 let s1 := if b_runs b then apply_effects (b_effects b) (log_ev (EvExec m (heap s (cur s))) s) else s in
                 match b_fault b with
                 | Some x => (Some x, s1)
                 | None => import_prefixes w m rest' (add_mod m s1)
                 end
               else (Some XModuleNotFound, s)
           end
  end.

Definition import_module (w : world) (n : name) (s : st) : option exn * st := import_prefixes w [] n s.

(* ------------------------------------------------------------------ importer.dynamic_import (importer.sys_path: above) *)

(* the while loop: try the whole dotted path, then drop trailing parts one at a time *)
Fixpoint dyn_attempts (w : world) (rev_parts : list string) (objparts : list string) (s : st)
  : (exn + (name * list string)) * st :=
  match rev_parts with
  | [] => (inl exhausted_raises, s)
  | last :: rev_rest =>
      let m := rev rev_parts in
      match import_module w m s with
      | (None, s1) => (inr (m, objparts), s1)
      | (Some x, s1) =>
          if caught_by import_attempt_catches x then dyn_attempts w rev_rest (last :: objparts) s1
          else (inl x, s1)
      end
  end.

(* the for loop over the remaining object parts *)
(* the for loop over the remaining object parts -- inside the `with sys_path(...)` block: an attribute access may run code
   (a lazy module __getattr__ importing the submodule again, after its direct import failed) *)
Fixpoint getattrs (w : world) (owner : name) (parts : list string) (s : st) : (exn + name) * st :=
  match parts with
  | [] => (inr owner, s)
  | p :: r =>
      match lookup_attr (w_attr w) owner p with
      | Some None => getattrs w (owner ++ [p]) r s
      | Some (Some x) => (if caught_by getattr_catches x then inl getattr_raises else inl x, s)
      | None =>
          if mem_name owner (w_lazy w) then
            match import_module w (owner ++ [p]) s with
            | (None, s1) => getattrs w (owner ++ [p]) r s1
            | (Some x, s1) => (if caught_by getattr_catches x then inl getattr_raises else inl x, s1)
            end
          else (if caught_by getattr_catches XAttributeError then inl getattr_raises else inl XAttributeError, s)
      end
  end.

Definition dynamic_import (w : world) (n : name) (paths : list path) (s : st) : (exn + name) * st :=
  with_sys_path paths
    (fun s0 => match dyn_attempts w (rev n) [] s0 with
               | (inl x, s1) => (inl x, s1)
               | (inr (m, objs), s1) => getattrs w m objs s1
               end) s.

(* ------------------------------------------------------------------ Inspector.get_module, GriffeLoader._inspect_module *)

Fixpoint climb (k : nat) (p : path) : path := match k with 0 => p | S k' => climb k' (removelast p) end.

(* import_paths = list(search paths); the directory that holds the top-level package goes first unless already there *)
Definition import_paths_for (n : name) (file : option modfile) (search : list path) : list path :=
  match file with
  | None => search
  | Some f =>
      let pp := climb ((List.length n - 1) + (if String.eqb (m_stem f) "__init__" then 1 else 0)) (m_dir f) in
      if mem_path pp search then search else pp :: search
  end.

Definition inspect_call (w : world) (n : name) (file : option modfile) (search : list path) (s : st) : option exn * st :=
  match dynamic_import w n (import_paths_for n file search) s with
  | (inl x, s1) => (Some x, s1)
  | (inr v, s1) => (lookup_walk (w_walk w) v, s1)
  end.

Definition ignored (n : name) : bool := existsb (fun pre => String.prefix pre (last n "")) ignored_prefixes.

Definition source_suffix (sfx : string) : bool := str_in sfx [".py"; ".pyi"].

Definition file_suffix (file : option modfile) : string := match file with Some f => m_suffix f | None => "" end.

(* `if self.store_source and filepath and filepath.suffix in {...}`: the loader reads the file itself (utf8) *)
Definition inspect_reads (store : bool) (file : option modfile) : bool :=
  match file with
  | Some f => (store || negb inspect_read_needs_store) && str_in (m_suffix f) inspect_reads_suffixes
  | None => false
  end.
Definition undecodable (file : option modfile) : bool :=
  match file with Some f => match m_vfault f with Some VUnicode => true | _ => false end | None => false end.

(* the statements of _inspect_module, interpreted in the order they have in the source (Gen: inspect_module_steps) *)
Fixpoint run_isteps (steps : list istep) (w : world) (store : bool) (n : name) (file : option modfile) (search : list path) (s : st)
  : option exn * st :=
  match steps with
  | [] => (None, s)
  | ISkipIgnored :: r => if ignored n then (Some ignored_raises, s) else run_isteps r w store n file search s
  | IReadSource :: r =>
      if inspect_reads store file then
        let s0 := log_ev (EvRead n (file_suffix file)) s in
        if undecodable file then (Some XUnicodeDecode, s0) else run_isteps r w store n file search s0
      else run_isteps r w store n file search s
  | IInspect :: r =>
      let (res, s1) := inspect_call w n file search s in
      match res with
      | Some x => (Some (rewrap inspect_module_handlers x), s1)
      | None => run_isteps r w store n file search s1
      end
  end.

Definition inspect_module (w : world) (store : bool) (n : name) (file : option modfile) (search : list path) (s : st) : option exn * st :=
  run_isteps inspect_module_steps w store n file search s.

(* ------------------------------------------------------------------ GriffeLoader._load_module / _load_module_path *)

Definition load_module (w : world) (allow force store : bool) (search : list path) (f : modfile) (s : st) : option exn * st :=
  let n := m_name f in
  let (r, s') :=
    match agent_ladder false force allow (m_suffix f) with
    | ACreate => (None, log_ev (EvCreate n) s)
    | AVisit =>
        let s0 := log_ev (EvVisit n (m_suffix f)) s in
        (option_map vfault_exn (m_vfault f), if visit_reads_source then log_ev (EvRead n (m_suffix f)) s0 else s0)
    | AInspect => inspect_module w store n (Some f) search (log_ev (EvInspect n (m_suffix f)) s)
    | ARaise x => (Some x, s)
    end in
  (option_map (rewrap load_module_handlers) r, s').

(* _load_submodules: a LoadingError is logged and the submodule dropped; anything else propagates.
   _get_or_create_parent_module: under a regular package a submodule whose parent package was not loaded is not
   importable and is skipped without being handed to any agent (under a namespace package parents are created). *)
Fixpoint load_subs (w : world) (allow force store : bool) (search : list path) (nsroot : bool) (subs : list modfile)
         (loaded : list name) (s : st) : option exn * st :=
  match subs with
  | [] => (None, s)
  | f :: r =>
      if negb nsroot && negb (mem_name (removelast (m_name f)) loaded)
      then load_subs w allow force store search nsroot r loaded (log_ev (EvOrphan (m_name f) (m_suffix f)) s)
      else
      match load_module w allow force store search f s with
      | (None, s1) => load_subs w allow force store search nsroot r (m_name f :: loaded) s1
      | (Some x, s1) =>
          if caught_by load_submodule_catches x
          then load_subs w allow force store search nsroot r loaded (log_ev (EvSkip (m_name f) (m_suffix f)) s1)
          else (Some x, s1)
      end
  end.

(* _load_package.  When the package has stubs, expand_wildcards(top_module) runs (external=None) before the stubs are
   loaded and may re-enter load for a private sibling package: [np] is that nested phase. *)
Definition load_package_with (np : st -> option exn * st) (w : world) (allow force store submodules : bool) (search : list path)
           (top : modfile) (subs : list modfile) (stubs : option (modfile * list modfile)) (s : st) : option exn * st :=
  match load_module w allow force store search top s with
  | (Some x, s1) => (Some x, s1)
  | (None, s1) =>
      match (if recurse_submodules submodules then load_subs w allow force store search false subs [m_name top] s1 else (None, s1)) with
      | (Some x, s2) => (Some x, s2)
      | (None, s2) =>
          match stubs with
          | None => (None, s2)
          | Some (st_top, st_subs) =>
              match np s2 with
              | (Some x, s2') => (Some x, s2')
              | (None, s2') =>
                  match load_module w allow force store search st_top s2' with
                  | (Some x, s3) => (Some x, s3)
                  | (None, s3) =>
                      if recurse_submodules submodules then load_subs w allow force store search false st_subs [m_name st_top] s3 else (None, s3)
                  end
              end
          end
      end
  end.

Definition no_nested (s : st) : option exn * st := (None, s).

(* GriffeLoader.load for one object spec (the top-level package name); its outcome is recorded in the log *)
Definition load_one_with (np : st -> option exn * st) (w : world) (allow force store submodules : bool) (search : list path)
           (req : string) (s : st) : option exn * st :=
  let (r, s') :=
    match find_pkg (w_find w) req with
    | FFinderError e => (Some (ferr_exn e), s)
    | FPkg top subs stubs => load_package_with np w allow force store submodules search top subs stubs s
    | FNs n subs =>
        let s1 := log_ev (EvCreate n) s in
        if recurse_submodules submodules then load_subs w allow force store search true subs [n] s1 else (None, s1)
    | FMissing via =>
        if not_found_reraises allow force then (Some XModuleNotFound, s)
        else match dynamic_import w [req] search s with
             | (inl x, s1) => (Some x, s1)
             | (inr _, s1) =>
                 match via with
                 | None => inspect_module w store [req] None search (log_ev (EvInspect [req] "") s1)
                 | Some (top, subs) => load_package_with np w allow force store submodules search top subs None s1
                 end
             end
    end in
  (r, log_ev (EvDone req r) s').

(* ------------------------------------------------------------------ re-entrant loads, fully nested *)

(* resolve_aliases / expand_wildcards call self.load(package, try_relative_path=False) on the same loader and swallow
   ImportError / LoadingError.  Which packages they ask for is left arbitrary, and so is the nesting: a re-entered package
   with stubs runs its own wildcard expansion inside _load_package, which may re-enter load again, and so on.
   A request tree: the package asked for, and the requests made by the nested phase of that very load. *)
Inductive rtree := RNode (req : string) (kids : list rtree).

Definition reentries_with (load : rtree -> st -> option exn * st) : list rtree -> st -> option exn * st :=
  fix go (ks : list rtree) (s : st) {struct ks} : option exn * st :=
    match ks with
    | [] => (None, s)
    | k :: ks' =>
        match load k s with
        | (None, s1) => go ks' s1
        | (Some x, s1) => if caught_by reentry_catches x then go ks' s1 else (Some x, s1)
        end
    end.

Fixpoint load_tree (w : world) (allow force store submodules : bool) (search : list path) (t : rtree) (s : st) {struct t}
  : option exn * st :=
  match t with
  | RNode req kids =>
      load_one_with (reentries_with (load_tree w allow force store true search) kids) w allow force store submodules search req s
  end.

Definition reentries (w : world) (allow force store : bool) (search : list path) : list rtree -> st -> option exn * st :=
  reentries_with (load_tree w allow force store true search).

(* one loader: an optional root load (with the requests nested in it), then the re-entries of alias resolution *)
Definition session (w : world) (allow force store submodules : bool) (search : list path) (root : option rtree) (later : list rtree) (s : st)
  : option exn * st :=
  match root with
  | None => reentries w allow force store search later s
  | Some t =>
      match load_tree w allow force store submodules search t s with
      | (Some x, s1) => (Some x, s1)
      | (None, s1) => reentries w allow force store search later s1
      end
  end.

(* a history of calls on ONE loader: load(...), resolve_aliases(...), load(...) ...  The options are the loader's, fixed when
   it is built: no method of the loader assigns to them (checked by the translator, observed after every call), so every
   step runs with the same allow / force / store and the same finder.  [catch]: what the caller swallows between calls. *)
Record hstep := mkStep { hs_submodules : bool; hs_root : option rtree; hs_later : list rtree }.

Fixpoint run_history (w : world) (allow force store : bool) (search : list path) (catch : list string) (steps : list hstep) (s : st)
  : option exn * st :=
  match steps with
  | [] => (None, s)
  | h :: r =>
      match session w allow force store (hs_submodules h) search (hs_root h) (hs_later h) s with
      | (None, s1) => run_history w allow force store search catch r s1
      | (Some x, s1) => if caught_by catch x then run_history w allow force store search catch r s1 else (Some x, s1)
      end
  end.

(* ------------------------------------------------------------------ the finder's search paths, the public entry points *)

(* ModuleFinder.__init__ / append_search_path: `search_paths or sys.path`, first occurrence of each path kept
   (paths are compared after resolution; the harness hands resolved paths in) *)
Fixpoint dedup (l seen : list path) : list path :=
  match l with
  | [] => []
  | p :: r => if mem_path p seen then dedup r seen else p :: dedup r (p :: seen)
  end.
Definition finder_paths (given syspath : list path) : list path :=
  dedup (if is_nil given then (if finder_defaults_to_sys_path then syspath else []) else given) [].

(* one loader built by an entry point: [ph_front] is what find_spec inserts ahead of the search paths when the object
   is given as a file path outside them (finder._top_module_name; C14's subject, input here) *)
Record phase := mkPhase {
  ph_entry : entry; ph_world : world; ph_given : list path; ph_front : list path; ph_submodules : bool;
  ph_root : option rtree; ph_later : list rtree }.

Definition phase_search (ph : phase) (s : st) : list path := ph_front ph ++ finder_paths (ph_given ph) (heap s (cur s)).

(* the loads of one call of an entry point (`griffe dump a b`: one per package; `griffe check`: old and new), each with
   the options as that entry point forwards them; what the entry point catches between loads comes from Gen *)
Fixpoint run_phases (allow force store : bool) (phs : list phase) (s : st) : option exn * st :=
  match phs with
  | [] => (None, s)
  | ph :: r =>
      let ep := ph_entry ph in
      match session (ph_world ph) (entry_allow ep allow) (entry_force ep force) (entry_store ep store)
                    (entry_submodules ep (ph_submodules ph)) (phase_search ph s) (ph_root ph) (ph_later ph) s with
      | (None, s1) => run_phases allow force store r s1
      | (Some x, s1) => if caught_by (entry_catches ep) x then run_phases allow force store r s1 else (Some x, s1)
      end
  end.

(* ------------------------------------------------------------------ observations used by the theorems *)

Definition is_exec (e : event) : bool := match e with EvExec _ _ => true | _ => false end.
Definition is_inspect (e : event) : bool := match e with EvInspect _ _ => true | _ => false end.
Definition executions (s : st) : list event := filter is_exec (log s).
Definition inspections (s : st) : list event := filter is_inspect (log s).
Definition wf (s : st) : Prop := cur s < next s.
Definition init_state (sp : list path) : st := mkSt 0 1 (fun _ => sp) [] [].
(* a process that imported things before: sys.modules is part of the initial state *)
Definition init_state_with (sp : list path) (imported : list name) : st := mkSt 0 1 (fun _ => sp) imported [].
(* the loader only ever reads source files itself (compiled files are at most handed to the import system) *)
Definition read_ok (e : event) : bool := match e with EvRead _ sfx => source_suffix sfx | _ => true end.
Definition reads_source_only (s : st) : Prop := forallb read_ok (log s) = true.
(* every package asked for in a request tree *)
Fixpoint tree_reqs (t : rtree) : list string := match t with RNode req kids => req :: flat_map tree_reqs kids end.

(* ------------------------------------------------------------------ codecs *)

Definition dec_path (x : sexp) : option path := as_list_of as_str x.
Definition dec_name (x : sexp) : option name := as_list_of as_str x.

Definition dec_exn (x : sexp) : option exn :=
  match x with
  | SStr s => find (fun e => String.eqb (exn_name e) s) all_exn
  | _ => None
  end.

Fixpoint dec_effect_fuel (fuel : nat) (x : sexp) : option effect :=
  match fuel with
  | 0 => None
  | S k =>
      match x with
      | SList [SStr "ins0"; p] => do p' <- dec_path p; Some (EIns0 p')
      | SList [SStr "app"; p] => do p' <- dec_path p; Some (EApp p')
      | SList [SStr "clear"] => Some EClear
      | SList [SStr "rebind"; l] => do l' <- as_list_of dec_path l; Some (ERebind l')
      | SList [SStr "scope"; ps; SList inner] =>
          do ps' <- as_list_of dec_path ps;
          do inner' <- (fix go (l : list sexp) : option (list effect) :=
                          match l with
                          | [] => Some []
                          | y :: r => do y' <- dec_effect_fuel k y; do r' <- go r; Some (y' :: r')
                          end) inner;
          Some (EScope ps' inner')
      | _ => None
      end
  end.
(* scopes generated by the harness nest a few levels at most *)
Definition dec_effect : sexp -> option effect := dec_effect_fuel 32.

Definition dec_vfault (x : sexp) : option vfault :=
  match x with SStr "syntax" => Some VSyntax | SStr "unicode" => Some VUnicode | _ => None end.

Definition dec_mod (x : sexp) : option modfile :=
  match x with
  | SList [n; d; SStr stem; SStr sfx; vf] =>
      do n' <- dec_name n; do d' <- dec_path d; do vf' <- as_opt dec_vfault vf; Some (mkMod n' d' stem sfx vf')
  | _ => None
  end.

Definition dec_modsubs (x : sexp) : option (modfile * list modfile) :=
  match x with
  | SList [t; subs] => do t' <- dec_mod t; do subs' <- as_list_of dec_mod subs; Some (t', subs')
  | _ => None
  end.

Definition dec_found (x : sexp) : option found :=
  match x with
  | SList [SStr "pkg"; t; subs; stubs] =>
      do t' <- dec_mod t; do subs' <- as_list_of dec_mod subs; do st' <- as_opt dec_modsubs stubs; Some (FPkg t' subs' st')
  | SList [SStr "ns"; n; subs] => do n' <- dec_name n; do subs' <- as_list_of dec_mod subs; Some (FNs n' subs')
  | SList [SStr "missing"; via] => do via' <- as_opt dec_modsubs via; Some (FMissing via')
  | SList [SStr "pathmissing"] => Some (FFinderError FEFileNotFound)
  | SList [SStr "undecodable"] => Some (FFinderError FEUnicode)
  | _ => None
  end.

Definition dec_find (x : sexp) : option (string * found) :=
  match x with SList [SStr k; f] => do f' <- dec_found f; Some (k, f') | _ => None end.

Definition dec_beh (x : sexp) : option (name * behaviour) :=
  match x with
  | SList [n; home; runs; effs; fault] =>
      do n' <- dec_name n; do h <- as_opt dec_path home; do r <- as_bool runs; do es <- as_list_of dec_effect effs;
      do f <- as_opt dec_exn fault; Some (n', mkBeh h r es f)
  | _ => None
  end.

Definition dec_attr (x : sexp) : option (name * string * option exn) :=
  match x with
  | SList [o; SStr p; r] => do o' <- dec_name o; do r' <- as_opt dec_exn r; Some (o', p, r')
  | _ => None
  end.

Definition dec_walk (x : sexp) : option (name * exn) :=
  match x with SList [n; e] => do n' <- dec_name n; do e' <- dec_exn e; Some (n', e') | _ => None end.

Definition dec_world (x : sexp) : option world :=
  match x with
  | SList [fs; bs; ats; ws] =>
      do fs' <- as_list_of dec_find fs; do bs' <- as_list_of dec_beh bs; do ats' <- as_list_of dec_attr ats;
      do ws' <- as_list_of dec_walk ws; Some (mkWorld fs' bs' ats' ws')
  | SList [fs; bs; ats; ws; lz] =>
      do fs' <- as_list_of dec_find fs; do bs' <- as_list_of dec_beh bs; do ats' <- as_list_of dec_attr ats;
      do ws' <- as_list_of dec_walk ws; do lz' <- as_list_of dec_name lz; Some (mkWorldL fs' bs' ats' ws' lz')
  | _ => None
  end.

Definition enc_path (p : path) : sexp := SList (map SStr p).
Definition enc_event (e : event) : sexp :=
  match e with
  | EvVisit n sfx => SList [SStr "visit"; enc_path n; SStr sfx]
  | EvInspect n sfx => SList [SStr "inspect"; enc_path n; SStr sfx]
  | EvCreate n => SList [SStr "create"; enc_path n]
  | EvSkip n sfx => SList [SStr "skip"; enc_path n; SStr sfx]
  | EvOrphan n sfx => SList [SStr "orphan"; enc_path n; SStr sfx]
  | EvExec n seen => SList [SStr "exec"; enc_path n; SList (map enc_path seen)]
  | EvRead n sfx => SList [SStr "read"; enc_path n; SStr sfx]
  | EvDone req r => SList [SStr "done"; SStr req; SStr (match r with None => "ok" | Some x => exn_name x end)]
  end.
Definition enc_result (r : option exn) : sexp := match r with None => SStr "ok" | Some x => SStr (exn_name x) end.

Definition enc_agent (a : agent) : sexp :=
  match a with ACreate => SStr "create" | AVisit => SStr "visit" | AInspect => SStr "inspect" | ARaise x => SList [SStr "raise"; SStr (exn_name x)] end.

Definition enc_outcome (sp : list path) (s0 : st) (r : option exn) (s : st) : sexp :=
  SList [enc_result r; SList (map enc_event (rev (log s))); SList (map enc_path (rev (mods s)));
         of_bool (Nat.eqb (cur s) (cur s0)); SList (map enc_path (heap s (cur s0))); of_nat (next s - next s0)].

Definition or_bad (o : option sexp) : sexp := match o with Some x => x | None => bad_input end.

Fixpoint dec_rtree_fuel (fuel : nat) (x : sexp) : option rtree :=
  match fuel with
  | 0 => None
  | S k =>
      match x with
      | SList [SStr req; SList kids] =>
          do kids' <- (fix go (l : list sexp) : option (list rtree) :=
                         match l with
                         | [] => Some []
                         | y :: r => do y' <- dec_rtree_fuel k y; do r' <- go r; Some (y' :: r')
                         end) kids;
          Some (RNode req kids')
      | _ => None
      end
  end.
(* request trees are as deep as the nesting of loads observed: never more than a handful of levels *)
Definition dec_rtree : sexp -> option rtree := dec_rtree_fuel 64.

Definition dec_entry (x : sexp) : option entry :=
  match x with SStr s => find (fun e => String.eqb (entry_name e) s) all_entries | _ => None end.

Definition dec_phase (x : sexp) : option phase :=
  match x with
  | SList [ep; world; given; front; sm; root; later] =>
      do ep' <- dec_entry ep; do w <- dec_world world; do g <- as_list_of dec_path given; do fr <- as_list_of dec_path front;
      do sm' <- as_bool sm; do rt <- as_opt dec_rtree root; do lt <- as_list_of dec_rtree later;
      Some (mkPhase ep' w g fr sm' rt lt)
  | _ => None
  end.

Definition dec_hstep (x : sexp) : option hstep :=
  match x with
  | SList [sm; root; later] => do sm' <- as_bool sm; do rt <- as_opt dec_rtree root; do lt <- as_list_of dec_rtree later; Some (mkStep sm' rt lt)
  | _ => None
  end.

Definition run_C15 (x : sexp) : sexp :=
  match x with
  | SList [SStr "history"; allow; force; store; given; world; steps; catch; syspath; imported] =>
      (* one loader, several calls *)
      or_bad (do a <- as_bool allow; do f <- as_bool force; do st' <- as_bool store; do g <- as_list_of dec_path given;
              do w <- dec_world world; do hs <- as_list_of dec_hstep steps; do ct <- as_list_of as_str catch;
              do ip <- as_list_of dec_path syspath; do im <- as_list_of dec_name imported;
              let s0 := init_state_with ip im in
              let (r, s) := run_history w a f st' (finder_paths g ip) ct hs s0 in
              Some (enc_outcome ip s0 r s))
  | SList [SStr "session"; allow; force; store; submodules; search; world; root; later; syspath] =>
      or_bad (do a <- as_bool allow; do f <- as_bool force; do st' <- as_bool store; do sm <- as_bool submodules;
              do sp <- as_list_of dec_path search; do w <- dec_world world; do rt <- as_opt dec_rtree root; do lt <- as_list_of dec_rtree later;
              do ip <- as_list_of dec_path syspath;
              let s0 := init_state ip in
              let (r, s) := session w a f st' sm sp rt lt s0 in
              Some (enc_outcome ip s0 r s))
  | SList [SStr "entry"; allow; force; store; phases; syspath; imported] =>
      (* a call of a public entry point: the loaders it builds, with the options as it forwards them *)
      or_bad (do a <- as_bool allow; do f <- as_bool force; do st' <- as_bool store; do phs <- as_list_of dec_phase phases;
              do ip <- as_list_of dec_path syspath; do im <- as_list_of dec_name imported;
              let s0 := init_state_with ip im in
              let (r, s) := run_phases a f st' phs s0 in
              Some (enc_outcome ip s0 r s))
  | SList [SStr "finder"; given; syspath] =>
      or_bad (do g <- as_list_of dec_path given; do ip <- as_list_of dec_path syspath; Some (SList (map enc_path (finder_paths g ip))))
  | SList [SStr "entry_flags"; ep; allow; force; store; submodules] =>
      or_bad (do ep' <- dec_entry ep; do a <- as_bool allow; do f <- as_bool force; do st' <- as_bool store; do sm <- as_bool submodules;
              Some (SList [of_bool (entry_allow ep' a); of_bool (entry_force ep' f); of_bool (entry_store ep' st');
                           of_bool (entry_submodules ep' sm); SList (map SStr (entry_catches ep'))]))
  | SList [SStr "inspect"; search; world; n; file; syspath] =>
      (* griffe.inspect(name, filepath=..., import_paths=search) called directly *)
      or_bad (do sp <- as_list_of dec_path search; do w <- dec_world world; do n' <- dec_name n; do f <- as_opt dec_mod file;
              do ip <- as_list_of dec_path syspath;
              let s0 := init_state ip in
              let (r, s) := inspect_call w n' f sp s0 in
              Some (enc_outcome ip s0 r s))
  | SList [SStr "dynamic_import"; search; world; n; syspath] =>
      or_bad (do sp <- as_list_of dec_path search; do w <- dec_world world; do n' <- dec_name n; do ip <- as_list_of dec_path syspath;
              let s0 := init_state ip in
              let (r, s) := dynamic_import w n' sp s0 in
              Some (SList [match r with inl x => SStr (exn_name x) | inr v => SList [SStr "value"; enc_path v] end;
                           enc_outcome ip s0 None s]))
  | SList [SStr "ladder"; is_list; force; allow; SStr sfx] =>
      or_bad (do l <- as_bool is_list; do f <- as_bool force; do a <- as_bool allow; Some (enc_agent (agent_ladder l f a sfx)))
  | SList [SStr "not_found"; allow; force] =>
      or_bad (do a <- as_bool allow; do f <- as_bool force; Some (of_bool (not_found_reraises a f)))
  | SList [SStr "gates"; ext; sibling; failed; same; loaded] =>
      or_bad (do e <- as_opt as_bool ext; do sb <- as_bool sibling; do fl <- as_bool failed; do sm <- as_bool same; do ld <- as_bool loaded;
              Some (SList [of_bool (alias_reentry_gate e sb fl sm ld);
                           of_bool (wildcard_not_loaded sm ld && negb (wildcard_reentry_skip e sb));
                           of_bool reentry_try_relative_path]))
  | SList [SStr "ancestors"; e] => or_bad (do e' <- dec_exn e; Some (SList (map SStr (ancestors e'))))
  | SList [SStr "caught"; hs; e] =>
      or_bad (do hs' <- as_list_of as_str hs; do e' <- dec_exn e; Some (of_bool (caught_by hs' e')))
  | SList [SStr "tables"] =>
      SList [SList (map SStr load_submodule_catches); SList (map SStr reentry_catches); SList (map SStr import_attempt_catches);
             SList (map SStr getattr_catches); of_bool sys_path_noop_when_empty; of_bool sys_path_restores_on_exception;
             SList (map SStr ignored_prefixes);
             SList (map (fun i => SStr (match i with ISkipIgnored => "ignored" | IReadSource => "read" | IInspect => "inspect" end)) inspect_module_steps);
             SList (map SStr inspect_reads_suffixes); of_bool inspect_read_needs_store; of_bool visit_reads_source;
             of_bool finder_defaults_to_sys_path]
  | _ => bad_input
  end.
