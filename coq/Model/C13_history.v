(* C13 model, part 9: histories of parse calls over SEVERAL Docstring objects whose configured options live in shared
   dictionaries (the loader hands one `docstring_options` dict to every docstring of a load).
   State: a heap of option dictionaries (a dictionary's identity = its index) and the docstrings, each with its lines, its
   parent, its configured parser, a REFERENCE to its options dictionary and the cache of `parsed`.  The value of a
   docstring can be assigned at any time; `lines` and every parse see the CURRENT value.
   Docstring.parse(parser, **options) = parse(self, parser or self.parser, **(options or self.parser_options)): the style
   given or else the configured one; the per-call options when there are any, else the configured dictionary; missing
   keys take the parser's defaults.  parse writes nothing.  Executable definitions only. *)
From Coq Require Import List Ascii String Bool Arith.
From Verif Require Import Model.C13_strings Model.C13_google Model.C13_sphinx Model.C13_numpy.
Import ListNotations.
Open Scope list_scope.
Open Scope nat_scope.

Inductive hstyle := HGoogle | HNumpy | HSphinx.

(* the documented option names; anything else is ignored by the three parsers' results *)
Inductive okey := ORetMulti | ORetNamed | ORecMulti | ORecNamed | OTrim | OIgnoreInit | OOther.

Definition okey_eqb (a b : okey) : bool :=
  match a, b with
  | ORetMulti, ORetMulti | ORetNamed, ORetNamed | ORecMulti, ORecMulti | ORecNamed, ORecNamed
  | OTrim, OTrim | OIgnoreInit, OIgnoreInit | OOther, OOther => true
  | _, _ => false
  end.

(* an options dictionary: a partial assignment *)
Definition odict := list (okey * bool).

Fixpoint oget (k : okey) (d : odict) (default : bool) : bool :=
  match d with
  | [] => default
  | (k', v) :: r => if okey_eqb k' k then v else oget k r default
  end.

(* d[k] = v *)
Fixpoint oset (k : okey) (v : bool) (d : odict) : odict :=
  match d with
  | [] => [(k, v)]
  | (k', v') :: r => if okey_eqb k' k then (k, v) :: r else (k', v') :: oset k v r
  end.

(* keyword arguments -> the option record of each parser (defaults of parse_google / parse_numpy) *)
Definition resolve_g (d : odict) : gopts :=
  mkOpts (oget ORetMulti d true) (oget ORetNamed d true) (oget ORecMulti d true) (oget ORecNamed d true) (oget OTrim d true).
Definition resolve_n (is_init : bool) (d : odict) : nopts :=
  mkNOpts (oget OTrim d true) (oget OIgnoreInit d false && is_init).

(* what one parse returns *)
Inductive hres :=
| HPlain (v : str)                       (* no parser: one text section, the value *)
| HG (r : presult)
| HN (r : presult)
| HS (l : list gsec).

(* the parent of a docstring as the parsers see it: never changes *)
Record hparent := mkHP { hp_ctx : pctx; hp_is_init : bool; hp_ret_attr : bool }.

(* parse as a function of the lines, the parent, the style and the keyword options in force *)
Definition parse_pure (p : hparent) (lines : list str) (s : option hstyle) (d : odict) : hres :=
  match s with
  | None => HPlain (join_nl lines)
  | Some HGoogle => HG (parse_google (resolve_g d) (hp_ctx p) lines)
  | Some HNumpy => HN (parse_numpy (resolve_n (hp_is_init p) d) (hp_ctx p) lines)
  | Some HSphinx => HS (parse_sphinx (hp_ctx p) (hp_ret_attr p) lines)
  end.

Record hdoc := mkHD { hd_lines : list str; hd_parent : hparent; hd_parser : option hstyle; hd_ref : nat; hd_parsed : option hres }.

Record hstate := mkHS { hs_heap : list odict; hs_docs : list hdoc }.

Inductive hop :=
| HParse (doc : nat) (s : option hstyle) (o : odict)     (* docs[doc].parse(s, **o) *)
| HReadParsed (doc : nat)                                (* docs[doc].parsed *)
| HSetOptions (doc : nat) (d : odict)                    (* docs[doc].parser_options = {...}: a NEW dictionary *)
| HMutate (ref : nat) (k : okey) (v : bool)              (* the user writes into a configured dictionary: d[k] = v *)
| HSetValue (doc : nat) (lines : list str)               (* docs[doc].value = ... (given as its lines) *)
| HReadLines (doc : nat).                                (* docs[doc].lines *)

Inductive hobs := ObsRes (r : hres) | ObsLines (l : list str) | ObsNone | ObsBadIndex.

Definition heap_get (h : list odict) (ref : nat) : odict := nth ref h [].

(* `options or self.parser_options` *)
Definition in_force (h : list odict) (d : hdoc) (o : odict) : odict :=
  match o with [] => heap_get h (hd_ref d) | _ => o end.

Definition pick_hstyle (given configured : option hstyle) : option hstyle :=
  match given with Some x => Some x | None => configured end.

Definition parse_now (h : list odict) (d : hdoc) (s : option hstyle) (o : odict) : hres :=
  parse_pure (hd_parent d) (hd_lines d) (pick_hstyle s (hd_parser d)) (in_force h d o).

Fixpoint set_nth {A} (n : nat) (x : A) (l : list A) : list A :=
  match l, n with
  | [], _ => []
  | _ :: r, 0 => x :: r
  | y :: r, S n' => y :: set_nth n' x r
  end.

Definition hstep (st : hstate) (x : hop) : hstate * hobs :=
  match x with
  | HParse i s o =>
      match nth_error (hs_docs st) i with
      | Some d => (st, ObsRes (parse_now (hs_heap st) d s o))
      | None => (st, ObsBadIndex)
      end
  | HReadParsed i =>
      match nth_error (hs_docs st) i with
      | Some d =>
          match hd_parsed d with
          | Some r => (st, ObsRes r)
          | None => let r := parse_now (hs_heap st) d None [] in
                    (mkHS (hs_heap st) (set_nth i (mkHD (hd_lines d) (hd_parent d) (hd_parser d) (hd_ref d) (Some r)) (hs_docs st)),
                     ObsRes r)
          end
      | None => (st, ObsBadIndex)
      end
  | HSetOptions i dict =>
      match nth_error (hs_docs st) i with
      | Some d => (mkHS (hs_heap st ++ [dict])
                        (set_nth i (mkHD (hd_lines d) (hd_parent d) (hd_parser d) (List.length (hs_heap st)) (hd_parsed d)) (hs_docs st)),
                   ObsNone)
      | None => (st, ObsBadIndex)
      end
  | HMutate ref k v =>
      (mkHS (set_nth ref (oset k v (heap_get (hs_heap st) ref)) (hs_heap st)) (hs_docs st), ObsNone)
  | HSetValue i ls =>
      match nth_error (hs_docs st) i with
      | Some d => (mkHS (hs_heap st) (set_nth i (mkHD ls (hd_parent d) (hd_parser d) (hd_ref d) (hd_parsed d)) (hs_docs st)), ObsNone)
      | None => (st, ObsBadIndex)
      end
  | HReadLines i =>
      match nth_error (hs_docs st) i with
      | Some d => (st, ObsLines (hd_lines d))        (* the lines of the CURRENT value: nothing is remembered *)
      | None => (st, ObsBadIndex)
      end
  end.

Fixpoint hexec (st : hstate) (ops : list hop) : hstate * list hobs :=
  match ops with
  | [] => (st, [])
  | x :: r => let '(st1, o1) := hstep st x in
              let '(st2, os) := hexec st1 r in (st2, o1 :: os)
  end.

(* ---- what a history leaves of the configuration: only the explicit writes count *)
Definition is_write (x : hop) : bool := match x with HSetOptions _ _ | HMutate _ _ _ | HSetValue _ _ => true | _ => false end.

(* the heap and the references after the writes of a history (parse / parsed calls dropped) *)
Definition writes_only (ops : list hop) : list hop := filter is_write ops.

(* the public configuration of a state: heap, and per docstring its lines, parent, parser and reference (not the cache) *)
Definition doc_config (d : hdoc) : list str * hparent * option hstyle * nat := (hd_lines d, hd_parent d, hd_parser d, hd_ref d).
Definition config (st : hstate) := (hs_heap st, map doc_config (hs_docs st)).
