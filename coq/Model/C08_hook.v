(* C08 model, text level with the object hook called while reading: json.loads(text, object_hook=json_decoder).
   CPython calls the hook on every object as soon as it is closed, so the exception of an inner object escapes before
   the rest of the text is read (a later syntax error is then never seen).
   Executable definitions only. *)
From Coq Require Import List ZArith String Ascii Bool Arith DecimalString.
From Verif Require Import Lib.Sexp Model.C08_json Model.C08_text.
Import ListNotations.
Open Scope string_scope.
Open Scope list_scope.
Open Scope nat_scope.

Inductive hres (A : Type) :=
| HOk (a : A) (rest : string)
| HJson                (* json.JSONDecodeError *)
| HUnmod
| HFuel
| HHook (e : err).     (* the exception the object hook raised, as soon as the object that triggers it is closed *)
Arguments HOk {A} a rest. Arguments HJson {A}. Arguments HUnmod {A}. Arguments HFuel {A}. Arguments HHook {A} e.

Definition hmap {A B} (f : A -> B) (r : hres A) : hres B :=
  match r with HOk a rest => HOk (f a) rest | HJson => HJson | HUnmod => HUnmod | HFuel => HFuel | HHook e => HHook e end.
Definition of_pres {A B} (f : A -> B) (r : pres A) : hres B :=
  match r with POk a rest => HOk (f a) rest | PErr => HJson | PUnmod => HUnmod | PFuel => HFuel end.
Definition leaf_pv (j : json) : pv :=
  match j with JNull => PNull | JBool b => PBool b | JNum z => PNum z | JStr s => PStr s | _ => PNull end.

Fixpoint parse_elems_h (pvf : string -> hres pv) (n : nat) (s : string) : hres (list pv) :=
  match n with
  | O => HFuel
  | S n' =>
      match pvf s with
      | HOk v rest =>
          match skip_ws rest with
          | String d rest' =>
              if code d =? 44 then hmap (cons v) (parse_elems_h pvf n' rest')
              else if code d =? 93 then HOk [v] rest'
              else HJson
          | EmptyString => HJson
          end
      | HJson => HJson | HUnmod => HUnmod | HFuel => HFuel | HHook e => HHook e
      end
  end.

Fixpoint parse_membs_h (pvf : string -> hres pv) (n : nat) (s : string) : hres (list (string * pv)) :=
  match n with
  | O => HFuel
  | S n' =>
      match s with
      | String q r =>
          if code q =? 34 then
            match parse_str_body r with
            | POk key rest =>
                match skip_ws rest with
                | String c rest1 =>
                    if code c =? 58 then
                      match pvf rest1 with
                      | HOk v rest2 =>
                          match skip_ws rest2 with
                          | String d rest3 =>
                              if code d =? 44 then hmap (cons (key, v)) (parse_membs_h pvf n' (skip_ws rest3))
                              else if code d =? 125 then HOk [(key, v)] rest3
                              else HJson
                          | EmptyString => HJson
                          end
                      | HJson => HJson | HUnmod => HUnmod | HFuel => HFuel | HHook e => HHook e
                      end
                    else HJson
                | EmptyString => HJson
                end
            | PErr => HJson | PUnmod => HUnmod | PFuel => HFuel
            end
          else HJson
      | EmptyString => HJson
      end
  end.

Definition call_hook (r : hres (list (string * pv))) : hres pv :=
  match r with
  | HOk kvs rest => match hook kvs with Ok v => HOk v rest | Err e => HHook e end
  | HJson => HJson | HUnmod => HUnmod | HFuel => HFuel | HHook e => HHook e
  end.

Fixpoint parse_value_h (fuel : nat) (s : string) : hres pv :=
  match fuel with
  | O => HFuel
  | S f =>
      match skip_ws s with
      | EmptyString => HJson
      | String c r =>
          let n := code c in
          if n =? 34 then of_pres PStr (parse_str_body r)
          else if n =? 91 then
            match skip_ws r with
            | EmptyString => HJson
            | String c2 r2 => if code c2 =? 93 then HOk (PList []) r2
                              else hmap PList (parse_elems_h (parse_value_h f) f (String c2 r2))
            end
          else if n =? 123 then
            match skip_ws r with
            | EmptyString => HJson
            | String c2 r2 => if code c2 =? 125 then call_hook (HOk [] r2)
                              else call_hook (parse_membs_h (parse_value_h f) f (String c2 r2))
            end
          else if n =? 110 then of_pres leaf_pv (literal "null" JNull (String c r))
          else if n =? 116 then of_pres leaf_pv (literal "true" (JBool true) (String c r))
          else if n =? 102 then of_pres leaf_pv (literal "false" (JBool false) (String c r))
          else if (n =? 45) || is_digit c then of_pres leaf_pv (parse_number (String c r))
          else if (n =? 78) || (n =? 73) then HUnmod
          else HJson
      end
  end.

(* json.loads(text, object_hook=json_decoder) *)
Definition loads_hook (s : string) : tres :=
  match parse_value_h (S (String.length s)) s with
  | HOk v rest => if is_empty (skip_ws rest) then TOk v else TJson
  | HJson => TJson
  | HUnmod => TUnmod
  | HFuel => TUnmod
  | HHook e => TErr e
  end.
