(* C19 model, second part: the loader's SECOND merge of the same (module, stubs) pair.
   loader.py:_load_package with package.stubs set:
     stubs = self._load_module(name, package.stubs, ...)   -> _load_module_path registers the stubs module in the modules
        collection under the name of the runtime module: ModulesCollection.set_member -> implicit merge_stubs (first merge);
        the stubs package's submodules are then loaded INTO the stubs module;
     return merge_stubs(top_module, stubs)                  -> second merge, unguarded.
   Objects, not values, matter here: the first merge MOVED every stub-only member into the runtime tree, so in the
   second merge such a member is at the same time the stub member and the runtime member; since /repo 79c2f6a
   _merge_stubs_members skips it (`if obj_member is stub_member: continue`; before, it was merged into itself, finding
   C19-F5).  The first merge also emptied the pending-overloads dict of every stubs scope it went through.
   Executable definitions only; proofs are in Proofs/C19_reload.v. *)
From Coq Require Import List ZArith String Bool Arith.
From Verif Require Import Lib.Sexp Model.C19_merge Model.C19_seq.
Import ListNotations.
Open Scope string_scope.
Open Scope list_scope.
Open Scope nat_scope.

(* stubs as the visitor builds them: every module / class carries its buffer dict (else `.overloads.items()` raises) *)
Fixpoint has_dicts (t : tree) : bool :=
  match t with
  | Al _ _ => true
  | AlTo _ _ x => has_dicts x
  | Obj d ms =>
      (if is_container (nkind d) then match nov d with OvDict _ => true | _ => false end else true)
      && forallb (fun p => has_dicts (snd p)) ms
  end.

Definition mem_name (n : string) (l : list string) : bool := existsb (String.eqb n) l.

Section Remerge.
  (* the recursive call on a class / module present on both sides:
     stub member, the runtime member as it was BEFORE the first merge, the runtime member now *)
  Variable rec : tree -> tree -> tree -> outcome.
  (* names whose stub member is a module loaded into the stubs module after the first merge: fresh objects *)
  Variable isnew : string -> bool.

  (* the loop of _merge_stubs_members in the second merge. sl = stubs.members, oms0 = obj.members before the first merge
     (a name absent there was moved: one object on both sides), acc = obj.members now *)
  Fixpoint remerge_members (sl : list (string * tree)) (oms0 acc : list (string * tree)) : list (string * tree) * option err :=
    match sl with
    | [] => (acc, None)
    | (n, sm) :: r =>
        if isnew n then
          match merge_members merge_obj [(n, sm)] acc with
          | (acc', None) => remerge_members r oms0 acc'
          | (acc', Some e) => (acc', Some e)
          end
        else
        match lookup n acc with
        | None => remerge_members r oms0 (acc ++ [(n, set_rt false sm)])   (* the code's branch; not reached after a first merge *)
        | Some cm =>
            match sm with
            | Obj smd _ =>
                match lookup n oms0 with
                | None => remerge_members r oms0 acc                        (* moved: if obj_member is stub_member: continue *)
                | Some om0 =>
                    match final cm with
                    | Obj cmd cmms =>
                        if kind_eqb (nkind cmd) (nkind smd) then
                          match nkind cmd with
                          | KFun => remerge_members r oms0 (assign n (retarget cm (Obj (merge_fun cmd smd) cmms)) acc)
                          | KAttr => remerge_members r oms0 (assign n (retarget cm (Obj (merge_attr cmd smd) cmms)) acc)
                          | KMod | KCls =>
                              match rec sm (final om0) (Obj cmd cmms) with
                              | Done t' => remerge_members r oms0 (assign n (retarget cm t') acc)
                              | Raised EAlias p => remerge_members r oms0 (assign n (retarget cm p) acc)
                              | Raised e p => (assign n (retarget cm p) acc, Some e)
                              end
                          end
                        else remerge_members r oms0 acc
                    | _ => remerge_members r oms0 acc
                    end
                end
            | _ => remerge_members r oms0 acc                                (* if stub_member.is_alias: continue *)
            end
        end
    end.
End Remerge.

(* the second _merge_module_stubs / _merge_class_stubs of a scope pair that was merged before:
   s = the stubs scope (its buffer is empty by now), o0 = the runtime scope before the first merge, cur = now *)
Fixpoint remerge (s o0 cur : tree) {struct s} : outcome :=
  match s, o0, cur with
  | Obj sd sms, Obj od oms, Obj cd cms =>
      let cd1 := with_doc cd (merge_doc (ndoc cd) (ndoc sd)) in
      let cd2 := with_imp cd1 (update_imports (nimp cd) (nimp sd)) in
      match remerge_members remerge (fun _ => false) sms oms cms with
      | (cms2, Some e) => Raised e (Obj cd2 cms2)
      | (cms2, None) => Done (Obj cd2 cms2)
      end
  | _, _, _ => Raised EAttr cur
  end.

(* ... of the top-level pair, after the submodules [subs] of the stubs package were loaded into the stubs module *)
Definition remerge_top (subs : list (string * tree)) (s o0 cur : tree) : outcome :=
  match add_members s subs, o0, cur with
  | Obj sd sms, Obj od oms, Obj cd cms =>
      let cd1 := with_doc cd (merge_doc (ndoc cd) (ndoc sd)) in
      let cd2 := with_imp cd1 (update_imports (nimp cd) (nimp sd)) in
      match remerge_members remerge (fun n => mem_name n (names subs)) sms oms cms with
      | (cms2, Some e) => Raised e (Obj cd2 cms2)
      | (cms2, None) => Done (Obj cd2 cms2)
      end
  | _, _, _ => Raised EAttr cur
  end.

(* _load_package: first merge through the modules collection (set_member: alias errors suppressed, the mutation of top
   stays), submodules of the stubs package loaded into the stubs module, merge_stubs(top, stubs) unguarded *)
Definition load_package2 (top stubs_init : tree) (subs : list (string * tree)) : result tree :=
  match merge_obj stubs_init top with
  | Done top1 =>
      match remerge_top subs stubs_init top top1 with
      | Done t => Ok t
      | Raised e _ => Err e
      end
  | Raised EAlias p =>
      match remerge_top subs stubs_init top p with
      | Done t => Ok t
      | Raised e _ => Err e
      end
  | Raised e _ => Err e
  end.

Definition run_C19 (s : sexp) : sexp :=
  match s with
  | SList [SStr "load_package"; top; st; subs] =>
      match dec_tree top, dec_tree st, as_list_of dec_named subs with
      | Some t', Some s', Some l' => enc_res enc_tree (load_package2 t' s' l')
      | _, _, _ => bad_input
      end
  | SList [SStr "load_package_by_value"; top; st; subs] =>      (* the former model: second merge of values (residual) *)
      match dec_tree top, dec_tree st, as_list_of dec_named subs with
      | Some t', Some s', Some l' => enc_res enc_tree (load_package t' s' l')
      | _, _, _ => bad_input
      end
  | SList (SStr "load_seq" :: _) => run_seq s
  | _ => C19_merge.run_C19 s
  end.
