(* Shared s-expression protocol: every model exposes [run : sexp -> sexp]. *)
From Coq Require Import List ZArith String Ascii Bool.
Import ListNotations.

Inductive sexp := SInt (z : Z) | SStr (s : string) | SList (l : list sexp).

Definition as_int (s : sexp) : option Z := match s with SInt z => Some z | _ => None end.
Definition as_nat (s : sexp) : option nat :=
  match s with SInt z => if (z <? 0)%Z then None else Some (Z.to_nat z) | _ => None end.
Definition as_str (s : sexp) : option string := match s with SStr x => Some x | _ => None end.
Definition as_list (s : sexp) : option (list sexp) := match s with SList l => Some l | _ => None end.
Definition as_bool (s : sexp) : option bool :=
  match s with SInt z => Some (negb (z =? 0)%Z) | _ => None end.

Definition of_nat (n : nat) : sexp := SInt (Z.of_nat n).
Definition of_bool (b : bool) : sexp := SInt (if b then 1 else 0)%Z.
Definition of_opt {A} (f : A -> sexp) (o : option A) : sexp :=
  match o with None => SList [] | Some a => SList [f a] end.

Fixpoint map_opt {A B} (f : A -> option B) (l : list A) : option (list B) :=
  match l with
  | [] => Some []
  | x :: r => match f x, map_opt f r with
              | Some y, Some ys => Some (y :: ys)
              | _, _ => None
              end
  end.

Definition as_opt {A} (f : sexp -> option A) (s : sexp) : option (option A) :=
  match s with
  | SList [] => Some None
  | SList [x] => match f x with Some a => Some (Some a) | None => None end
  | _ => None
  end.

Definition as_list_of {A} (f : sexp -> option A) (s : sexp) : option (list A) :=
  match s with SList l => map_opt f l | _ => None end.

Definition bad_input : sexp := SList [SStr "bad-input"].

Notation "'do' x <- a ; b" := (match a with Some x => b | None => None end)
  (at level 200, x pattern, a at level 100, b at level 200).
