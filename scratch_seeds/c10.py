import itertools, sys, inspect, collections
sys.path.insert(0, "/repo/src")
import griffe
from griffe import Parameter, Parameters, ParameterKind as K, Function, Module
from _griffe.diff import _function_incompatibilities

NAMES = ["a","b","c"]
def sigs(maxn=3):
    # each param: (name, kind, has_default, defval)
    out=[]
    kinds=[K.positional_only,K.positional_or_keyword,K.var_positional,K.keyword_only,K.var_keyword]
    for n in range(maxn+1):
        for names in itertools.permutations(NAMES,n):
            for ks in itertools.product(range(5),repeat=n):
                if list(ks)!=sorted(ks): continue
                if ks.count(2)>1 or ks.count(4)>1: continue
                for ds in itertools.product([0,1,2],repeat=n):
                    ok=True
                    seen_def=False
                    for k,d in zip(ks,ds):
                        if k in (2,4):
                            if d: ok=False
                        if k in (0,1):
                            if d: seen_def=True
                            elif seen_def: ok=False
                    if not ok: continue
                    out.append(tuple((nm,kinds[k],d) for nm,k,d in zip(names,ks,ds)))
    return out

def src(sig):
    parts=[]; 
    po=[p for p in sig if p[1] is K.positional_only]
    for i,(nm,k,d) in enumerate(sig):
        s=nm
        if k is K.var_positional: s="*"+nm
        if k is K.var_keyword: s="**"+nm
        if d: s+=f"={d}"
        if k is K.keyword_only and not any(q[1] is K.var_positional for q in sig) and not any(q[1] is K.keyword_only for q in sig[:i]):
            parts.append("*")
        parts.append(s)
        if k is K.positional_only and (i+1==len(sig) or sig[i+1][1] is not K.positional_only):
            parts.append("/")
    return "def f("+", ".join(parts)+"): pass"

def gfunc(sig):
    ps=[]
    for nm,k,d in sig:
        default = "()" if k is K.var_positional else "{}" if k is K.var_keyword else (str(d) if d else None)
        ps.append(Parameter(nm,kind=k,default=default))
    return Function("f",parameters=Parameters(*ps))

def pyf_old(sig):
    ns={}
    exec(src(sig),ns)
    return inspect.signature(ns["f"])

def binds_old(s,n,kw):
    try:
        s.bind(*range(n),**{k:0 for k in kw}); return True
    except TypeError: return False

def pyf(sig):
    ns={}
    exec(src(sig),ns)
    return ns["f"]
def binds(f,n,kw):
    try:
        f(*range(n),**{k:0 for k in kw}); return True
    except TypeError: return False
S=sigs(int(sys.argv[1]) if len(sys.argv)>1 else 2)
print(len(S),"sigs")
pys={s:pyf(s) for s in S}
gs={s:gfunc(s) for s in S}
calls=[(n,kw) for n in range(4) for r in range(4) for kw in itertools.combinations(["a","b","c","z"],r)]
bindtab={s:frozenset(c for c in calls if binds(pys[s],*c)) for s in S}
miss=collections.Counter(); ex={}
tot=0
for old in S:
    for new in S:
        if old==new: 
            r=list(_function_incompatibilities(gs[old],gs[new])); assert not r,(old,r)
            continue
        broken = bindtab[old]-bindtab[new]
        if broken:
            tot+=1
            r=list(_function_incompatibilities(gs[old],gs[new]))
            if not r:
                key=(src(old),src(new))
                miss[key]+=1; ex[key]=sorted(broken)[0]
print("pairs with broken calls",tot,"unreported",len(miss))
for k in list(miss)[:60]:
    print(k, ex[k])

print("=== classification")
import re
def parse(srcs):
    return srcs
def cat(old,new,call):
    on={p[0]:p for p in old}; nn={p[0]:p for p in new}
    V=(K.var_positional,K.var_keyword)
    c=[]
    for nm,p in on.items():
        if p[1] in V and nm in nn and nn[nm][1] not in V: c.append("F1:variadic->nonvariadic-same-name")
        if p[1] in V and nm in nn and nn[nm][1] in V and nn[nm][1] is not p[1]: c.append("F1b:variadic-swap")
    old_vk=any(p[1] is K.var_keyword for p in old); old_vp=any(p[1] is K.var_positional for p in old)
    for nm,p in nn.items():
        if nm not in on and old_vk and p[1] in (K.positional_or_keyword,K.keyword_only): c.append("F2:new-named-param-captures-kw-previously-in-**kw")
        if nm not in on and old_vp and p[1] in (K.positional_only,K.positional_or_keyword): c.append("F3:new-positional-param-before-*args")
    for nm,p in on.items():
        if nm in nn and p[1] is K.positional_only and nn[nm][1] in (K.positional_or_keyword,K.keyword_only) and old_vk: c.append("F4:posonly->kw-able with old **kw")
    return tuple(sorted(set(c))) or ("UNCLASSIFIED",)
cc=collections.Counter(); exs={}
for old in S:
    for new in S:
        if old==new: continue
        broken=bindtab[old]-bindtab[new]
        if broken and not list(_function_incompatibilities(gs[old],gs[new])):
            k=cat(old,new,None); cc[k]+=1; exs.setdefault(k,[]).append((src(old),src(new),sorted(broken)[0]))
for k,v in cc.most_common(): 
    print(v,k)
    for e in exs[k][:4]: print("     ",e)
print("=== unclassified all")
seen=set()
for o,n,c in exs.get(("UNCLASSIFIED",),[]):
    k=(re.sub(r"=\d","=D",o),re.sub(r"=\d","=D",n))
    if k in seen: continue
    seen.add(k); print(k,c)
