import sys
exec(open("c06.py").read().split("class TO")[0])
import traceback
seen=set()
for t in range(3000):
    files=gen(); write(files,"g6")
    stage="load"
    try:
        loader=griffe.GriffeLoader(search_paths=["g6"],allow_inspection=False)
        pkg=loader.load("p"); stage="resolve"
        loader.resolve_aliases(implicit=True,external=False)
    except Exception as e:
        tb=traceback.extract_tb(e.__traceback__)
        key=(stage,type(e).__name__,tuple(f.name for f in tb[-4:]))
        if key in seen: continue
        seen.add(key)
        print("=====",key, str(e).replace("\n"," | ")[:150])
        for f in tb[-6:]: print("   ",f.filename.split("/")[-1],f.lineno,f.name,"::",f.line)
