import griffe, json, sys
def rt(obj, full):
    j = obj.as_json(full=full)
    o2 = type(obj).from_json(j)
    j2 = o2.as_json(full=full)
    return j == j2
for name, kw in [("reg", {}), ("reg", {"force_inspection": True}), ("ns", {}), ("math", {}), ("itertools", {})]:
    for res in (False, True):
        try:
            m = griffe.load(name, search_paths=["p8"], resolve_aliases=res, **kw)
        except Exception as e:
            print(name, kw, "LOAD FAIL", type(e).__name__, e); continue
        for full in (False, True):
            try:
                print(name, kw, "resolve", res, "full", full, "->", rt(m, full))
            except Exception as e:
                print(name, kw, "resolve", res, "full", full, "RAISE", type(e).__name__, str(e)[:100])
