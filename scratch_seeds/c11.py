import griffe
old=griffe.load("pkg",search_paths=["p11/old"],resolve_aliases=True,resolve_implicit=True)
new=griffe.load("pkg",search_paths=["p11/new"],resolve_aliases=True,resolve_implicit=True)
for b in griffe.find_breaking_changes(old,new):
    print(b.kind.name, b.obj.path, "| public?", b.obj.is_public, "|", b.explain(griffe.ExplanationStyle.MARKDOWN))
