import os, json, griffe
real_walk = os.walk
def load(rev):
    def walk(*a, **k):
        for root, dirs, files in real_walk(*a, **k):
            dirs.sort(reverse=rev); files.sort(reverse=rev); yield root, dirs, files
    os.walk = walk
    try: return griffe.load("pkg", search_paths=["p19"])
    finally: os.walk = real_walk
def summ(o):
    out = {}
    for n, m in o.members.items():
        if m.is_alias: out[n] = ("alias", m.target_path, m.runtime); continue
        d = {"kind": m.kind.value, "runtime": m.runtime, "doc": m.docstring.value if m.docstring else None}
        if m.is_function: d["params"] = [(p.name, str(p.annotation)) for p in m.parameters]; d["returns"] = str(m.returns); d["overloads"] = len(m.overloads or [])
        if m.is_attribute: d["ann"] = str(m.annotation); d["value"] = str(m.value)
        if m.is_class or m.is_module: d["members"] = summ(m)
        out[n] = d
    return out
a = summ(load(False)["m"]); b = summ(load(True)["m"])
print("order independent:", a == b)
print(json.dumps(a, indent=1)[:2500])
if a != b:
    for k in a:
        if a[k] != b.get(k): print("DIFF", k, a[k], b.get(k))
