import itertools, random, sys, collections, traceback
import griffe
from griffe import Module, Class, Function, Attribute, Alias, ModulesCollection
from _griffe.exceptions import AliasResolutionError, CyclicAliasError
rnd=random.Random(int(sys.argv[2]) if len(sys.argv)>2 else 0)
NAMES=["a","b","c"]
def fresh(kind,name,col):
    if kind=="M": return Module(name, filepath=None)
    if kind=="C": return Class(name)
    if kind=="F": return Function(name)
    if kind=="A": return Attribute(name)
    raise
def walk(obj, seen=None):
    seen = seen if seen is not None else set()
    for n,m in list(obj.members.items()):
        if id(m) in seen: continue
        seen.add(id(m))
        yield obj,n,m
        if not m.is_alias: yield from walk(m, seen)
def check(col, log):
    bad=[]
    for parent,n,m in walk(col):
        if parent is col:
            if m._modules_collection is not col: bad.append(("collection-link",n))
            if m.parent is not None and not m.is_alias: pass
        else:
            if m.parent is not parent: bad.append(("parent",parent.path,n, getattr(m.parent,'path',None)))
        if n!=m.name: bad.append(("name",n,m.name))
        # retrievable by own path
        try:
            p = m.path
            got = col.get_member(p)
            if got is not m: bad.append(("retrieve",p))
            # dotted == chained
            cur=col
            for part in p.split("."): cur=cur.members[part]
            if cur is not m: bad.append(("chain",p))
            if col.get_member(tuple(p.split("."))) is not m: bad.append(("tuple",p))
        except Exception as e:
            bad.append(("retrieve-exc",type(e).__name__,n))
        if m.is_alias and m.resolved:
            t=m._target
            try:
                if t.aliases.get(m.path) is not m: bad.append(("aliases-backref", m.path, m.target_path, sorted(t.aliases)))
            except (AliasResolutionError,CyclicAliasError) as e: pass
            if t is m: bad.append(("self-target",m.path))
    return bad
def paths(col):
    out=[]
    for parent,n,m in walk(col):
        if not m.is_alias and m.kind.value in ("module","class"): out.append(m.path)
    return out
def run(nops):
    col=ModulesCollection(); log=[]
    for i in range(nops):
        containers=[None]+paths(col)
        cpath=rnd.choice(containers)
        name=rnd.choice(NAMES)
        op=rnd.choice(["set","set","set","del","alias","alias","resolve","setitem","delitem"])
        key = name if cpath is None else cpath+"."+name
        form=rnd.choice(["str","tuple"])
        k = key if form=="str" else tuple(key.split("."))
        try:
            if op in("set","setitem"):
                kind = "M" if cpath is None else rnd.choice("MCFA" if col.get_member(cpath).is_module else "CFA")
                o=fresh(kind,name,col)
                if op=="set": col.set_member(k,o)
                else: col[k]=o
                log.append((op,k,kind))
            elif op=="alias":
                if cpath is None: continue
                allp=[m.path for _,_,m in walk(col)]
                tgt=rnd.choice(allp+["zz.q"])
                a=Alias(name,tgt)
                col.set_member(k,a); log.append(("alias",k,tgt))
            elif op=="resolve":
                als=[m for _,_,m in walk(col) if m.is_alias]
                if not als: continue
                a=rnd.choice(als); log.append(("resolve",a.path))
                try: a.resolve_target()
                except (AliasResolutionError,CyclicAliasError): log.append("  ->err")
            elif op=="del":
                col.del_member(k); log.append(("del",k))
            elif op=="delitem":
                del col[k]; log.append(("delitem",k))
        except (KeyError,AttributeError) as e: log.append((op,k,type(e).__name__)); 
        except (AliasResolutionError,CyclicAliasError) as e: log.append((op,k,type(e).__name__))
        except Exception as e:
            return log+[(op,k)], [("EXC",type(e).__name__,str(e)[:80])]
        bad=check(col,log)
        if bad: return log,bad
    return None,None
cnt=collections.Counter(); ex={}
for t in range(int(sys.argv[1])):
    log,bad=run(rnd.randint(2,10))
    if bad:
        k=bad[0][0] if bad[0][0]!="EXC" else bad[0][:2]
        cnt[k]+=1
        if k not in ex or len(log)<len(ex[k][0]): ex[k]=(log,bad)
print(cnt)
for k,(l,b) in ex.items(): print(k); print("   ",l); print("   ",b[:3])
