import json, griffe, jsonschema, collections
schema = json.load(open("/repo/docs/schema.json"))
def errs(name, **kw):
    m = griffe.load(name, search_paths=["p8","pe","p11/old"], **kw)
    doc = json.loads(m.as_json(full=True))
    v = jsonschema.Draft7Validator(schema)
    c = collections.Counter()
    def walk(d, path):
        # validate each object individually to localise
        for e in v.iter_errors(d):
            c[(tuple(str(x) for x in list(e.absolute_path)[-2:]), e.message[:80])] += 1
    walk(doc, "")
    return c
for name, kw in [("reg", {}), ("reg", {"resolve_aliases": True}), ("m1", {}), ("pkg", {"resolve_aliases": True, "resolve_implicit": True}), ("ns", {})]:
    try:
        c = errs(name, **kw)
        print(name, kw, "errors:", len(c))
        for k, n in list(c.items())[:4]: print("    ", n, k)
    except Exception as e:
        print(name, kw, "RAISE", type(e).__name__, str(e)[:80])
