import itertools, sys
import griffe
from griffe import Module, Class, ModulesCollection
def cpython_mro(bases_of, n):
    classes={}
    for i in range(n):
        try:
            classes[i]=type(f"K{i}",tuple(classes[b] for b in bases_of[i]),{})
        except TypeError as e:
            return None
    return {i:[int(c.__name__[1:]) for c in classes[i].__mro__[1:-1]] for i in range(n)}
def griffe_mro(bases_of,n):
    col=ModulesCollection(); m=Module("m",filepath=None); col.set_member("m",m)
    cs={}
    for i in range(n):
        c=Class(f"K{i}",bases=[f"m.K{b}" for b in bases_of[i]]); m.set_member(f"K{i}",c); cs[i]=c
    out={}
    for i in range(n):
        try: out[i]=[int(c.name[1:]) for c in cs[i].mro()]
        except ValueError: return None if False else {**out, i:None}
    return out
N=int(sys.argv[1]); tot=bad=0
def base_choices(i):
    prev=list(range(i))
    for k in range(0,min(3,i)+1):
        yield from itertools.permutations(prev,k)
for combo in itertools.product(*[list(base_choices(i)) for i in range(N)]):
    tot+=1
    cp=cpython_mro(combo,N); g=griffe_mro(combo,N)
    if cp is None:
        # some class uncomputable in CPython: griffe must report None for some class
        if all(v is not None for v in g.values()): bad+=1; print("GRIFFE computed where CPython rejects",combo,g)
    else:
        if g!=cp: bad+=1; print("DIFF",combo,cp,g)
print(tot,bad)
