import sys, itertools, collections, random
exec(open("c10.py").read().split("S=sigs(")[0])
POS=(K.positional_only,K.positional_or_keyword); V=(K.var_positional,K.var_keyword)
def npos(s): return sum(1 for p in s if p[1] in POS)
def has(s,k): return any(p[1] is k for p in s)
def accepts_more_than(s,i): return npos(s)>i or has(s,K.var_positional)
def idx(s,nm): return [p[0] for p in s].index(nm)
def gaps(old,new):
    on={p[0]:p for p in old}; nn={p[0]:p for p in new}; g=set()
    for nm,p in on.items():
        if p[1] in V and nm in nn and nn[nm][1] not in V and nn[nm][2]: g.add("F1")
        if p[1] is K.keyword_only and nm in nn and nn[nm][1] is K.positional_or_keyword and accepts_more_than(old,idx(new,nm)): g.add("F5")
        if p[1] is K.positional_only and nm in nn and nn[nm][1] is K.positional_or_keyword and has(old,K.var_keyword): g.add("F4")
    for nm,p in nn.items():
        if nm not in on and p[1] is K.positional_or_keyword and p[2] and has(old,K.var_keyword) and accepts_more_than(old,idx(new,nm)): g.add("F2")
    return g
maxn=int(sys.argv[1]); sample=int(sys.argv[2]) if len(sys.argv)>2 else 0
S=sigs(maxn); print(len(S),"sigs")
fs={s:pyf(s) for s in S}; gsx={s:gfunc(s) for s in S}
calls=[(n,kw) for n in range(maxn+2) for r in range(5) for kw in itertools.combinations(["a","b","c","z"],r)]
bt={s:frozenset(c for c in calls if binds(fs[s],*c)) for s in S}
pairs = itertools.product(S,S) if not sample else ((random.choice(S),random.choice(S)) for _ in range(sample))
random.seed(1)
tot=unrep=unexpl=0; usedgap=collections.Counter(); gapbutfine=collections.Counter(); ex=[]
for old,new in pairs:
    if old==new: continue
    broken=bt[old]-bt[new]
    rep=bool(list(_function_incompatibilities(gsx[old],gsx[new])))
    g=gaps(old,new)
    if broken:
        tot+=1
        if not rep:
            unrep+=1
            if not g: unexpl+=1; ex.append((src(old),src(new),sorted(broken)[0]))
            for x in g: usedgap[x]+=1
    elif not rep:
        for x in g: gapbutfine[x]+=1
print("breaking pairs",tot,"unreported",unrep,"unexplained",unexpl,"gap used",dict(usedgap),"gap flagged on silent non-breaking pairs",dict(gapbutfine))
print(ex[:10])
