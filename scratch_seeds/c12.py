import random, sys, logging, time, traceback, collections
import griffe
from griffe import Docstring, Function, Parameters, Parameter, Class, Module, Attribute
logging.getLogger("griffe").setLevel(logging.CRITICAL)
rnd = random.Random(1)
frag = ["Args:", "Parameters", "----------", "---", "Returns:", "Returns", "Yields:", "Raises:", "Examples:", "Note:", "Attributes:", "Other Parameters", "Receives", "Deprecated", "Warns",
 "    x: desc", "    x (int): desc", "  y : int, optional", "x : int", "    cont", "        more", "", " ", "text", ":param x: d", ":type x: int", ":param int x: d", ":returns: r", ":rtype: int", ":raises ValueError: e", ":param:", ":param a b c d: x",
 ">>> a = 1", "```", "```python", "    >>> f()", ":", "::", "a:", "    :", "(int): x", "    int: x", "name : {a, b}", "*args : int", "x, y : int", "Methods", "Classes:", "    f(a): x", "1.0", "    Use other", ":var x: v", ":vartype x: int", ":return:", "    ", "\t x", "Args:\tx", "args:", "ARGS:", "Keyword Args:", " Args:"]
def mk():
    n = rnd.randint(0, 9)
    return "\n".join(rnd.choice(frag) for _ in range(n))
f = Function("__init__", parameters=Parameters(Parameter("self"), Parameter("x", annotation="int", default="1"), Parameter("args", kind=griffe.ParameterKind.var_positional)), returns="Iterator[int]")
c = Class("C"); c.set_member("__init__", f)
prop = Attribute("p", annotation="int"); prop.labels.add("property")
parents = [None, Module("m"), c, f, prop, Function("g", returns=None)]
opts = {"google": ["ignore_init_summary","trim_doctest_flags","returns_multiple_items","returns_named_value","returns_type_in_property_summary","receives_multiple_items","receives_named_value","warn_unknown_params"],
        "numpy": ["ignore_init_summary","trim_doctest_flags","warn_unknown_params"], "sphinx": ["warn_unknown_params"]}
errs = collections.Counter(); ex={}
t0=time.time()
N=int(sys.argv[1])
for i in range(N):
    text = mk()
    for style in ("google","numpy","sphinx"):
        parent = rnd.choice(parents)
        o = {k: rnd.random()<0.5 for k in opts[style]}
        d = Docstring(text, parent=parent)
        try:
            secs = d.parse(style, **o)
            for s in secs: s.as_dict()
        except Exception as e:
            tb = traceback.extract_tb(e.__traceback__)[-1]
            k=(style,type(e).__name__,tb.name,tb.lineno)
            errs[k]+=1
            if k not in ex or len(text)<len(ex[k][0]): ex[k]=(text,o,repr(parent))
print(N, "texts", time.time()-t0,"s")
for k,v in errs.most_common(): print(v,k,repr(ex[k][0]),ex[k][1:])
