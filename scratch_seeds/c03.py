import ast, sys
import griffe
from griffe import get_expression, Module
m = Module("m")
cases = ["(a + b) * c", "a ** (b ** c)", "(a ** b) ** c", "-(a + b)", "(a or b) and c", "not (a and b)", "(a, b)[0]", "(lambda: 1)()", "(a if b else c) if d else e",
 "a if (b if c else d) else e", "(yield)", "[*a, b]", "{**a, 'b': 1}", "f(*a, **k)", "a[1:2, ::3]", "a[(1, 2)]", "a[1,]", "(a := 1)", "f'{a!r:>{w}}'", "f'{a}' 'b'", "a < b < c", "(a < b) < c", "lambda x, /, y=1, *a, z, **k: x", "lambda *, z: z", "x.y.z", "(x + y).z", "1 .real", "a[b][c]", "(await x)" , "{a: b for a, b in c if d if e}", "[x async for x in y]", "(x for x in y)", "f(x for x in y)", "a @ b", "~a", "not a", "b'x'", "1j", "...", "None", "'a' 'b'", "(a,)", "()", "a[()]", "{}", "{1}", "lambda: (yield)", "a if b else lambda: c", "(lambda: a) if b else c", "-1 ** 2", "(-1) ** 2", "a - (b - c)", "a / (b * c)", "f(a=(yield))", "x[a:b]", "x[:]", "x[::]", "x[a, b:c]", "{**a}", "f(**{'a': 1})", "[a, *b]", "a, *b", "*a,", "f'{{}}'", "f'{a:{b}}'", "f'{x=}'", "'\\n'", "(a.b)(c)", "a.b(c).d[e]", "not a == b", "(not a) == b", "a and b or c", "a and (b or c)", "await_", "a if b else c, d","x[a if b else c]", "x[lambda: 1]", "(a := b, c)", "f((a := b))", "[(a := b) for _ in c]"]
bad=0
for c in cases:
    try:
        node = ast.parse(c, mode="eval").body
    except SyntaxError as e:
        print("SKIP",c,e); continue
    try:
        e = get_expression(node, parent=m, parse_strings=False)
        s = str(e)
    except Exception as ex:
        print("RAISE", c, type(ex).__name__, ex); bad+=1; continue
    try:
        back = ast.dump(ast.parse(s, mode="eval").body)
    except SyntaxError as ex:
        print("UNPARSABLE", repr(c), "->", repr(s)); bad+=1; continue
    if back != ast.dump(node):
        print("DIFF", repr(c), "->", repr(s)); bad+=1
print("bad",bad,"of",len(cases))
