import griffe, inspect, sys
m = griffe.load("m1", search_paths=["pe"])
for n in ["b","d","tc_func","else_func","after"]:
    print("runtime", n, m.members[n].runtime)
print("B.y annotation resolves to", m["A.B.y"].annotation.canonical_path, "| python: global x")
print("A.meth returns resolves to", m["A.meth"].returns.canonical_path, "| python: A.x (class body at def time)")
print("DC init params", [p.name for p in m["DC"].members.get("__init__").parameters] if "__init__" in m["DC"].members else None)
print("DC2 init params", [p.name for p in m["DC2"].members["__init__"].parameters])
sys.path.insert(0,"pe"); import m1
print("py DC.__init__", inspect.signature(m1.DC.__init__), "DC2", inspect.signature(m1.DC2.__init__))
# C16 bottom-up
from griffe import Module, Class, Alias, Function, ModulesCollection
col=ModulesCollection(); mod=Module("m",filepath=None); col.set_member("m",mod)
f=Function("f"); mod.set_member("f",f)
c=Class("C"); a=Alias("al", f); c.set_member("al", a)   # detached class
mod.set_member("C", c)
print("alias path", a.path, "backrefs", sorted(f.aliases))
