import re
s=open('c10.py').read()
s=s.replace("S=sigs(", '''def pyf(sig):
    ns={}
    exec(src(sig),ns)
    return ns["f"]
def binds(f,n,kw):
    try:
        f(*range(n),**{k:0 for k in kw}); return True
    except TypeError: return False
S=sigs(''',1)
open('c10.py','w').write(s)
