import random, sys, os, shutil, collections, traceback, signal, logging
import griffe
from _griffe.exceptions import AliasResolutionError, CyclicAliasError
logging.getLogger("griffe").setLevel(logging.CRITICAL)
rnd=random.Random(int(sys.argv[2]) if len(sys.argv)>2 else 0)
MODS=["p","p.a","p.b","p.s","p.s.c"]  # p, p.s packages
NAMES=["x","y","_z"]
def gen():
    files={}
    for m in MODS:
        lines=[]
        for _ in range(rnd.randint(0,4)):
            k=rnd.random()
            tgt=rnd.choice(MODS+["p.missing","q"])
            nm=rnd.choice(NAMES)
            if k<0.2: lines.append(f"{nm} = 1")
            elif k<0.3: lines.append(f"def {nm}(): ...")
            elif k<0.55: lines.append(f"from {tgt} import {rnd.choice(NAMES)} as {nm}" if rnd.random()<.5 else f"from {tgt} import {nm}")
            elif k<0.75: lines.append(f"from {tgt} import *")
            elif k<0.85: lines.append(f"from . import {rnd.choice(['a','b','s','c',nm])}" )
            elif k<0.92: lines.append(f"__all__ = {[rnd.choice(NAMES) for _ in range(rnd.randint(0,2))]!r}")
            else: lines.append(f"import {tgt}" + (f" as {nm}" if rnd.random()<.5 else ""))
        files[m]="\n".join(lines)+"\n"
    return files
def write(files,root):
    shutil.rmtree(root,ignore_errors=True)
    for m,src in files.items():
        parts=m.split(".")
        if m in ("p","p.s"): path=os.path.join(root,*parts,"__init__.py")
        else: path=os.path.join(root,*parts[:-1],parts[-1]+".py")
        os.makedirs(os.path.dirname(path),exist_ok=True); open(path,"w").write(src)
class TO(Exception): pass
def handler(*a): raise TO()
signal.signal(signal.SIGALRM,handler)
bad=collections.Counter(); ex={}
for t in range(int(sys.argv[1])):
    files=gen(); write(files,"g6")
    signal.alarm(10)
    try:
        loader=griffe.GriffeLoader(search_paths=["g6"],allow_inspection=False)
        pkg=loader.load("p")
        loader.resolve_aliases(implicit=True,external=False)
        u1,_=loader.resolve_aliases(implicit=True,external=False)
        u2,_=loader.resolve_aliases(implicit=True,external=False)
        if u1!=u2: bad["fixpoint"]+=1; ex.setdefault("fixpoint",files)
        # walk all aliases
        stack=[pkg]; seen=set()
        while stack:
            o=stack.pop()
            for n,m in o.members.items():
                if m.is_alias:
                    try:
                        ft=m.final_target
                        if ft.is_alias: bad["final-alias"]+=1
                        m.kind; m.resolved
                    except (AliasResolutionError,CyclicAliasError): pass
                    # partially resolved chain?
                    if m.resolved:
                        try: m.final_target
                        except AliasResolutionError: bad["partial-chain"]+=1; ex.setdefault("partial-chain",(files,m.path))
                        except CyclicAliasError: pass
                elif id(m) not in seen:
                    seen.add(id(m)); stack.append(m)
    except TO: bad["timeout"]+=1; ex.setdefault("timeout",files)
    except RecursionError: bad["recursion"]+=1; ex.setdefault("recursion",files)
    except Exception as e:
        k=("raise",type(e).__name__, traceback.extract_tb(e.__traceback__)[-1].name); bad[k]+=1; ex.setdefault(k,files)
    finally: signal.alarm(0)
print(bad)
for k,v in ex.items():
    print("==",k); 
    fs = v[0] if isinstance(v,tuple) else v
    for m,s in fs.items(): print("  #",m); print("    "+s.replace("\n","\n    "))
    if isinstance(v,tuple): print("  at",v[1])
