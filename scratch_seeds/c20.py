import subprocess, os, sys, glob, tempfile
import griffe
def state():
    r = lambda *a: subprocess.run(["git","-C","r20",*a],capture_output=True,text=True).stdout.strip()
    return {"wt": len(r("worktree","list").splitlines()), "branches": r("branch","--list"), "status": r("status","--porcelain"), "head": r("rev-parse","HEAD"), "tmp": sorted(os.path.basename(p) for p in glob.glob(tempfile.gettempdir()+"/griffe-worktree-*"))}
s0 = state()
# scenario A: an extension / inspection leaves an untracked file in the worktree
class Dirty(griffe.Extension):
    def on_package_loaded(self, *, pkg, **kw):
        (pkg.filepath.parent / "junk.txt").write_text("x")
m = griffe.load_git("pkg", ref="v1", repo="r20", extensions=griffe.load_extensions(Dirty))
s1 = state()
print("A untracked file in worktree: restored =", s0 == s1); 
if s0 != s1: print("   before", s0, "\n   after ", s1)
print("   source still usable:", repr(m["f"].source))
# clean up for next scenario
subprocess.run(["git","-C","r20","worktree","prune"]); subprocess.run(["git","-C","r20","branch","-D","griffe-v1"],capture_output=True)
s0 = state()
# scenario B: unknown ref
try: griffe.load_git("pkg", ref="nope", repo="r20")
except Exception as e: print("B unknown ref ->", type(e).__name__)
print("   restored =", s0 == state())
# scenario C: package absent
try: griffe.load_git("absent", ref="v1", repo="r20", allow_inspection=False)
except Exception as e: print("C absent pkg ->", type(e).__name__)
print("   restored =", s0 == state())
