import os, sys, random, json
import griffe
real_walk = os.walk
def summary(order):
    def walk(*a, **k):
        for root, dirs, files in real_walk(*a, **k):
            dirs.sort(reverse=order); files.sort(reverse=order)
            yield root, dirs, files
    os.walk = walk
    try:
        m = griffe.load("pkg", search_paths=["p14/sp"])
    finally:
        os.walk = real_walk
    def s(o): return {n: (str(v.filepath.relative_to(os.path.abspath("p14/sp"))) if v.is_module else v.kind.value, s(v) if v.is_module else None) for n, v in o.members.items() if not v.is_alias}
    return s(m)
a = summary(False); b = summary(True)
print(json.dumps(a)); print(json.dumps(b)); print("same:", a == b)
sys.path.insert(0, "p14/sp")
import pkg.foo, pkg.bar
print("cpython pkg.foo ->", pkg.foo.__file__, "| pkg.bar ->", pkg.bar.__file__)
try:
    import pkg.bar.inner; print("cpython imports pkg.bar.inner")
except Exception as e: print("cpython: pkg.bar.inner not importable:", type(e).__name__)
