(* Generic driver: one s-expression per input line, Model.run, one s-expression per output line.
   Text format: decimal ints; double-quoted strings with backslash escapes (n t r xHH, backslash, quote); parenthesised lists. *)
open Model

let rec pos n = if n = 1 then XH else if n land 1 = 0 then XO (pos (n lsr 1)) else XI (pos (n lsr 1))
let z_of_int n = if n = 0 then Z0 else if n > 0 then Zpos (pos n) else Zneg (pos (-n))
let rec int_of_pos = function XH -> 1 | XO p -> 2 * int_of_pos p | XI p -> 2 * int_of_pos p + 1
let int_of_z = function Z0 -> 0 | Zpos p -> int_of_pos p | Zneg p -> - (int_of_pos p)
let explode s = List.init (String.length s) (String.get s)
let implode l = let b = Buffer.create 16 in List.iter (Buffer.add_char b) l; Buffer.contents b

exception Parse of string

let parse (s : string) : sexp =
  let n = String.length s in
  let i = ref 0 in
  let rec skip () = if !i < n && (s.[!i] = ' ' || s.[!i] = '\t') then (incr i; skip ()) in
  let hex c = match c with
    | '0'..'9' -> Char.code c - 48 | 'a'..'f' -> Char.code c - 87 | 'A'..'F' -> Char.code c - 55
    | _ -> raise (Parse "hex") in
  let rec item () =
    skip ();
    if !i >= n then raise (Parse "eof");
    match s.[!i] with
    | '(' -> incr i; let acc = ref [] in
      let rec loop () = skip ();
        if !i >= n then raise (Parse "eof-list");
        if s.[!i] = ')' then incr i else (acc := item () :: !acc; loop ()) in
      loop (); SList (List.rev !acc)
    | '"' -> incr i; let b = Buffer.create 16 in
      let rec loop () =
        if !i >= n then raise (Parse "eof-str");
        let c = s.[!i] in
        if c = '"' then incr i
        else if c = '\\' then begin
          let d = s.[!i+1] in
          (match d with
           | 'n' -> Buffer.add_char b '\n'; i := !i + 2
           | 't' -> Buffer.add_char b '\t'; i := !i + 2
           | 'r' -> Buffer.add_char b '\r'; i := !i + 2
           | 'x' -> Buffer.add_char b (Char.chr (16 * hex s.[!i+2] + hex s.[!i+3])); i := !i + 4
           | _ -> Buffer.add_char b d; i := !i + 2);
          loop () end
        else (Buffer.add_char b c; incr i; loop ()) in
      loop (); SStr (explode (Buffer.contents b))
    | _ -> let j = !i in
      while !i < n && s.[!i] <> ' ' && s.[!i] <> ')' && s.[!i] <> '(' do incr i done;
      SInt (z_of_int (int_of_string (String.sub s j (!i - j))))
  in item ()

let rec print b = function
  | SInt z -> Buffer.add_string b (string_of_int (int_of_z z))
  | SStr l -> Buffer.add_char b '"';
    List.iter (fun c -> match c with
      | '\\' -> Buffer.add_string b "\\\\" | '"' -> Buffer.add_string b "\\\""
      | '\n' -> Buffer.add_string b "\\n" | '\t' -> Buffer.add_string b "\\t" | '\r' -> Buffer.add_string b "\\r"
      | c when Char.code c < 32 || Char.code c > 126 -> Buffer.add_string b (Printf.sprintf "\\x%02x" (Char.code c))
      | c -> Buffer.add_char b c) l;
    Buffer.add_char b '"'
  | SList l -> Buffer.add_char b '(';
    List.iteri (fun k x -> if k > 0 then Buffer.add_char b ' '; print b x) l;
    Buffer.add_char b ')'

let () =
  try while true do
    let line = input_line stdin in
    let out =
      try let r = run (parse line) in let b = Buffer.create 64 in print b r; Buffer.contents b
      with Parse m -> "(\"driver-parse-error\" \"" ^ m ^ "\")"
         | Stack_overflow -> "(\"driver-stack-overflow\")" in
    print_string out; print_newline ()
  done with End_of_file -> ()
