# executable
__all__ = ["a"]
__all__.extend(["b", "c"])
__all__.append("d")
__all__ += ["e"]
__all__.extend(("f",))
a = b = c = d = e = f = 1
class K:
    x = 1
