class C:
    """Doc.
flush-left docstring content
    """

    x = (
1
)
    """doc of x"""

    y = """text
at column 0
"""

    def m(self):
# left-aligned comment
        s = f"""
left {self}
"""
        return (
s)

    class K:
        def n(self):
            pass
  # comment at a lower column
            return 1
if C:
    def g():
        t = """
zero
"""
        return t
