# executable
x = 1
"""doc of x"""
x = 2
y = 1
"""first doc of y"""
y = 2
"""second doc of y"""
y = 3
z = 1
z = 2
"""late doc of z"""
class C:
    a: int
    """doc of a"""
    a = 1
    def __init__(self):
        self.a = 2
        self.b = 3
        """doc of b"""
        self.b = 4
