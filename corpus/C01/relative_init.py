from . import sub
from . import other as other
from .rel import thing
class K:
    from . import inner
