if c:
    x = 1
else:
    "not the docstring of x"
for i in r:
    y = 1
else:
    "nor of y"
try:
    z = 1
finally:
    "nor of z"
