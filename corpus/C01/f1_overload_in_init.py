from typing import overload
class C:
    def __init__(self):
        @overload
        def f(): ...
