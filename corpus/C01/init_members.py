from typing import overload
class C:
    def __init__(self):
        """members of the function object: defs, classes, imports of its body; self.<name> goes to the class"""
        import os
        from os import path as p
        def helper(): ...
        class K:
            y = 1
            def __init__(self):
                self.z = 2
                from os import sep
        self.a = 1
        b = 2
        if os:
            self.a = 3
            import sys
class D:
    def __init__(self):
        self.__init__ = 1
        import os
class E:
    def __init__(self):
        import os
    @overload
    def __init__(self):
        import sys
class F:
    @property
    def __init__(self): ...
    @__init__.setter
    def __init__(self, v):
        import sys
        self.q = 1
