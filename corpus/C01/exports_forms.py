# executable
__all__ = ["a"]
__all__ += ["b"]
__all__ = __all__ + ["c"]
__all__ += ("d",)
a = b = c = d = 1
