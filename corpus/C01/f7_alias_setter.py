from m.C import y
import m.z as z
class C:
    @y.setter
    def y(self): ...
@z.setter
def z(): ...
