# executable
from typing import TYPE_CHECKING
if TYPE_CHECKING:
    if 1:
        a = 1
    from os import sep
    def tc_func(): ...
else:
    b = 2
c = 3
