x = 1
"doc of x"
async def y(): ...
x = y = 2
class C:
    @property
    def p(self): "pd"
    p = q = 1
