# leading comment

"""Module docstring."""

import os  # trailing comment

# a decorated class, decorator over several lines


class C(
        object):

    (
        "parenthesised docstring"
    )

    x: int = (
        1
    )
    """doc of x"""
        # oddly indented comment
    @property
    # comment between decorator and def
    def p(self):
        return 1

    @p.setter
    def p(self,
          v):
        pass

    def __init__(self):

        if os:
            self.y = 1
            # no
        else:
            self.y = 2
        try:
            self.z = 1
        except Exception:
            self.z = 2

        finally:
            self.w = 3


@staticmethod
@os.path.join(
    "a",
    "b",
)
def f():
    pass
# trailing comment
