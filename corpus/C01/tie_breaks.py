# executable
x = 1
if 1:
    x = 2
    def x(): ...
elif 0:
    x = 3
try:
    y = 1
except Exception:
    y = 2
else:
    y = 3
class C:
    x = 1
    def __init__(self):
        self.x = 2
        if 1:
            self.x = 3
            self.y = 4
        self.z: int = 3
        self.a.b = 3
