# executable
__all__ = []
def f(): ...
_g = 1
