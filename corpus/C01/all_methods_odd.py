import os
__all__.extend(["lost"])
__all__ = ["a"]
__all__.extend(["b", c])
__all__.append(os.sep)
class K:
    __all__.append("no")
    def __init__(self):
        __all__.extend(["no"])
if os:
    __all__.extend(os.__all__)
else:
    __all__.append("z")
try:
    __all__.extend(["t"], ["ignored"])
except Exception:
    __all__.extend()
__all__.append(1)
__all__.remove("a")
os.__all__.extend(["no"])
other.extend(["no"])
__all__.extend(*["s"])
__all__.extend(names=["no"])
__all__.extend(x for x in "no")
