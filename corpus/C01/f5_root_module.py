# executable
x = 1
